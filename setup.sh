#!/bin/bash
# Offline setup: nothing to build (pure Python). Makes sure Hypothesis is importable by the repo's interpreter.
cd "$(dirname "${BASH_SOURCE[0]}")" || exit 1
if ! /venv/bin/python -c "import hypothesis" 2>/dev/null; then
  /venv/bin/pip install --no-index --find-links /opt/veriftools/wheels hypothesis || exit 1
fi
# optional: atheris for the auxiliary coverage-guided campaign (C03/C04 thorough tier); absence is tolerated
if ! PYTHONPATH=.deps /venv/bin/python -c "import atheris" 2>/dev/null; then
  /venv/bin/pip install --no-index --find-links /opt/veriftools/wheels --target .deps atheris >/dev/null 2>&1 || true
fi
/venv/bin/python -c "import hypothesis, msdparser, fs; print('setup ok: hypothesis', hypothesis.__version__)"
