#!/usr/bin/env python3
"""
Re-run the checks against every stored seeded change (seeded/<name>/patch.diff) on a scratch export of /repo's HEAD.
Updates seeded/<name>/meta.json -> verification.checks / verification.rechecked.   tools/seedrerun.py [name ...]
"""
import glob, json, os, shutil, subprocess, sys, tempfile

HERE = os.path.dirname(os.path.dirname(os.path.abspath(__file__)))
SEED = os.environ.get("SEEDRERUN_SEED", "1")
OWN_ONLY = os.environ.get("SEEDRERUN_OWN_ONLY") == "1"
DRY = SEED != "1" or OWN_ONLY  # other seeds / partial runs are reported, not stored
names = sys.argv[1:] or sorted(os.path.basename(os.path.dirname(p)) for p in glob.glob(os.path.join(HERE, "seeded", "*", "patch.diff")))
head = subprocess.run(["git", "-C", "/repo", "rev-parse", "--short", "HEAD"], capture_output=True, text=True).stdout.strip()
for name in names:
    d = os.path.join(HERE, "seeded", name)
    meta = json.load(open(os.path.join(d, "meta.json")))
    props = sorted({k.split("@")[0] for k in meta["verification"]["checks"]})
    if OWN_ONLY:
        props = [p for p in props if p == name[:3]] or props[:1]
    tmp = tempfile.mkdtemp(prefix="vfseed-")
    try:
        subprocess.run(f"git -C /repo archive HEAD simfile testdata | tar -x -C {tmp}", shell=True, check=True)
        r = subprocess.run(["patch", "-p1", "-s", "-i", os.path.join(d, "patch.diff")], cwd=tmp, capture_output=True, text=True)
        if r.returncode:
            print(name, "PATCH DOES NOT APPLY TO HEAD:", (r.stdout + r.stderr)[:200])
            meta["verification"]["rechecked"] = {"repo_head": head, "applies": False}
            json.dump(meta, open(os.path.join(d, "meta.json"), "w"), indent=1)
            continue
        res = {}
        for pid in props:
            e = dict(os.environ, VERIF_REPO_ROOT=tmp, VERIF_EVIDENCE_DIR=os.path.join(tmp, "ev"), VERIF_REPLAY_DIR=os.path.join(tmp, "rp"), VERIF_SEED=SEED)
            c = subprocess.run([os.path.join(HERE, "check"), pid], cwd=HERE, env=e, capture_output=True, text=True)
            lines = c.stdout.strip().splitlines()
            msg = next((l for l in lines if not l.startswith(("KNOWN-FINDING", "VIOLATION", "NOTE"))), "")
            res[f"{pid}@seed{SEED}"] = {"exit": c.returncode, "verdict": {0: "MISSED", 1: "DETECTED"}.get(c.returncode, "HARNESS-ERROR"), "message": msg[:400]}
        if not DRY:
            meta["verification"]["checks"] = res
            meta["verification"]["rechecked"] = {"repo_head": head, "applies": True}
            json.dump(meta, open(os.path.join(d, "meta.json"), "w"), indent=1)
        print(name, {k: v["verdict"] for k, v in res.items()})
    finally:
        shutil.rmtree(tmp, ignore_errors=True)
