#!/usr/bin/env python3
"""Regenerates MANIFEST.json from the table below (keeps it valid at all times)."""
import json, os, sys
HERE = os.path.dirname(os.path.dirname(os.path.abspath(__file__)))
sys.path.insert(0, HERE)
from tools.manifest_table import CHECKS, NOT_APPLICABLE, NOTES  # noqa

props = [json.loads(l)["id"] for l in open(os.path.join(HERE, "properties.jsonl"))]
checks = []
for pid in props:
    if pid not in CHECKS:
        continue
    c = CHECKS[pid]
    checks.append({
        "property_id": pid,
        "quick_cmd": f"./check {pid} --tier quick",
        "thorough_cmd": f"./check {pid} --tier thorough",
        "evidence_file": f"evidence/{pid}.json",
        "replay_cmd_template": f"./check {pid} --replay {{path}}",
        "engine": "vf",
        "level_claimed": {"category": c["level"], "text": c["text"], "design_ref": c["ref"]},
        "level_note": c["note"],
        "technique": c["technique"],
    })
na = [{"property_id": pid, "reason": NOT_APPLICABLE.get(pid, "check not built yet in this session; no claim is made")} for pid in props if pid not in CHECKS]
m = {
    "version": 1,
    "setup_cmd": "./setup.sh",
    "hooks": {
        "guard": "SIMFILE_VERIF",
        "enable": "no hooks exist: every property is observable through the public API and the filesystem; checks import /repo's working tree directly (pure Python, no build step)",
        "baseline_off_cmd": "cd /repo && /venv/bin/python -m pytest -ra -q -p no:cacheprovider --timeout=900 --continue-on-collection-errors",
        "source_commits": [],
        "add_only": True,
    },
    "engines": [{"name": "vf", "path": "vf/", "serves_properties": [c["property_id"] for c in checks],
                 "kind_free_text": "Hypothesis strategies + stateful machines + complete finite enumerations + enumerated fault injection, 16 seeded shards, explicit oracle per property (reference model / round trip / differential / metamorphic)"}],
    "checks": checks,
    "not_applicable": na,
    "notes": NOTES,
}
json.dump(m, open(os.path.join(HERE, "MANIFEST.json"), "w"), indent=1)
print("checks:", [c["property_id"] for c in checks], "not claimed:", [n["property_id"] for n in na])
