#!/usr/bin/env python3
"""prints the markdown table of seeded changes (seeded/*/meta.json) for DESIGN.md section 9.4"""
import glob, json, os
root = os.path.dirname(os.path.dirname(os.path.abspath(__file__)))
print("| seeded change | breaks | what it needs to manifest | caught by (quick tier) | missed by |")
print("|---|---|---|---|---|")
for f in sorted(glob.glob(os.path.join(root, "seeded", "*", "meta.json"))):
    m = json.load(open(f))
    name = os.path.basename(os.path.dirname(f))
    v = m.get("verification", {})
    det = sorted({k.split("@")[0] for k, x in v.get("checks", {}).items() if x["verdict"] == "DETECTED"})
    mis = sorted({k.split("@")[0] for k, x in v.get("checks", {}).items() if x["verdict"] != "DETECTED"} - set(det))
    need = (m.get("needs_to_manifest") or "").replace("\n", " ").replace("|", "/")
    title = (m.get("title") or "").replace("|", "/")
    print(f"| `{name}`: {title[:110]} | {m.get('property', name[:3])} | {need[:260]} | {', '.join(det) or '-'} | {', '.join(mis) or '-'} |")
