#!/usr/bin/env python3
"""rewrites the condensed table of seeded changes at the end of DESIGN.md (section 9.4) from seeded/*/meta.json"""
import glob, json, os, re

root = os.path.dirname(os.path.dirname(os.path.abspath(__file__)))
p = os.path.join(root, "DESIGN.md")
s = open(p).read()
head = "| seeded change | mechanism | caught by (quick tier, seed 1) |\n"
i = s.index(head)
rows = [head, "|---|---|---|\n"]


def order(name):
    m = re.match(r"(C\d\d)-(.*)", name)
    rnd = {"1": (1, 1), "2": (1, 2), "h1": (2, 1), "h2": (2, 2)}.get(m.group(2))
    if rnd is None:
        r = re.match(r"r(\d)-(\d)", m.group(2))
        rnd = (int(r.group(1)), int(r.group(2)))
    return (m.group(1),) + rnd


names = sorted((os.path.basename(os.path.dirname(f)) for f in glob.glob(os.path.join(root, "seeded", "*", "meta.json"))), key=order)
for name in names:
    m = json.load(open(os.path.join(root, "seeded", name, "meta.json")))
    checks = m.get("verification", {}).get("checks", {})
    det = sorted({k.split("@")[0] for k, x in checks.items() if x["verdict"] == "DETECTED"})
    title = (m.get("title") or m.get("mechanism") or "").replace("|", "/").replace("\n", " ")[:150]
    caught = ", ".join(det) if det else ("- (judged, see above)" if m.get("judgement") else "-")
    rows.append(f"| `{name}` | {title} | {caught} |\n")
open(p, "w").write(s[:i] + "".join(rows))
print(len(names), "rows")
