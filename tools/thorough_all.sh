#!/bin/bash
# runs every registered thorough check once, sequentially; prints one summary line each (dev-time helper)
cd "$(dirname "${BASH_SOURCE[0]}")/.." || exit 2
for p in $(/venv/bin/python -c "import json;print(' '.join(c['property_id'] for c in json.load(open('MANIFEST.json'))['checks']))"); do
  [ -n "$1" ] && [[ ! " $* " =~ " $p " ]] && continue
  s=$(date +%s)
  out=$(VERIF_EVIDENCE_DIR=${VERIF_EVIDENCE_DIR:-/tmp/vf-thorough-ev} ./check $p --tier thorough 2>&1); rc=$?
  echo "$p rc=$rc $(( $(date +%s) - s ))s :: $(echo "$out" | grep -E "^$p " | tail -1)"
  [ $rc -ne 0 ] && echo "$out" | grep -v KNOWN | head -5 | cut -c1-600
done
