#!/usr/bin/env python3
"""tools/addfinding.py <json-file-with-entry>  : append/replace an entry of known_findings.json (by id). Dev-time only."""
import json, os, sys
root = os.path.dirname(os.path.dirname(os.path.abspath(__file__)))
p = os.path.join(root, "known_findings.json")
d = json.load(open(p))
e = json.load(open(sys.argv[1])) if sys.argv[1] != "-" else json.load(sys.stdin)
for x in (e if isinstance(e, list) else [e]):
    if x["status"] == "fixed":
        x["line"] = f"fixed: property={x['property']} {x['commit']} {x['what']}"
    d["findings"] = [f for f in d["findings"] if f["id"] != x["id"]] + [x]
d["findings"].sort(key=lambda f: (f["property"], f["id"]))
json.dump(d, open(p, "w"), indent=1, ensure_ascii=True)
print(len(d["findings"]), "entries")
