NOTES = ("Every check is ./check <ID>; it imports simfile from /repo's working tree in a fresh interpreter, is a pure "
         "function of that tree and VERIF_SEED, writes evidence/<ID>.json, prints KNOWN-FINDING lines for entries of "
         "known_findings.json, exits 1 with a VIOLATION line and a replay file under replays/ otherwise; exit 2 is a "
         "harness error. See DESIGN.md.")
NOT_APPLICABLE = {}
CHECKS = {
 "C14": dict(level="exploration", ref="DESIGN.md section 5 C14",
   technique="property-based testing (Hypothesis) + complete enumeration of the tick grid against Fraction/Decimal reference arithmetic",
   text="Complete enumeration of all 192001 tick multiples within +-2000 beats (string/float/Decimal round trips), plus seeded random search over exact constructions, operator pairs in both operand orders, inexact inputs including constructed exact ties and near-ties, and timing-event lists carried through BeatValues and through SM/SSC simfiles into TimingData. Exhaustive on the grid, sampled beyond it; absence outside the generated domain is not shown.",
   note="Trusted: CPython Fraction/Decimal, msdparser tokenizer, Hypothesis."),
}
CHECKS["C11"] = dict(level="exploration", ref="DESIGN.md section 5 C11, 4.5",
   technique="property-based testing against an exact rational reference model (Hypothesis timelines + complete enumeration of small event placements + metamorphic relations)",
   text="time_at/bpm_at compared with an exact Fraction evaluation of the timeline to 1e-9 s at every event beat, warp end, neighbouring tick and generated beat under every EventTag; complete for all sets of up to 4 events on a 6-point beat grid (thorough; 3 quick), sampled beyond; monotonicity, offset-shift and redundant-BPM relations. Absence outside the generated domain and magnitude bound is not shown.",
   note="Trusted: the reference model vf/model_timing.py, CPython Fraction/Decimal, the SSCSimfile -> TimingData reader (C14). Float comparison sound below 1e5 s only.")
CHECKS["C12"] = dict(level="exploration", ref="DESIGN.md section 5 C12, 4.5",
   technique="property-based testing against an exact rational reference model, round trip and metamorphic (redundant BPM insertion) relations",
   text="beat_at judged clause by clause (round trip on unskipped ticks, pause interiors, half-tick tolerance elsewhere, exact expected beat at boundary times for the WARP and default tags, monotonicity, independence of redundant earlier BPM changes) on the same timelines as C11; boundary times are the engine's own time_at values. Complete on the small placement grid, sampled beyond.",
   note="Trusted: vf/model_timing.py; float order equals rational order because distinct event times are >= 6e-4 s apart in the generated domain. Delay-only beats inside warps are not claimed.")
CHECKS["C13"] = dict(level="exploration", ref="DESIGN.md section 5 C13",
   technique="property-based testing against the exact warp-union model and a note grid model (Hypothesis + complete small placements)",
   text="hittable() compared with the warp-union rule on every tick around every event; time_notes compared with the expected sequence for all three options over routine/keysounded note data placed on warp edges and pauses, times to 1e-9 s. Complete on the small placement grid, sampled beyond.",
   note="Trusted: vf/model_timing.py, vf/gen_notes.py (grid -> text renderer and expected notes).")
CHECKS["C07"] = dict(level="exploration", ref="DESIGN.md section 5 C07, 4.4",
   technique="property-based testing against a note grid model (chart generated as data, text rendered from it, expected notes computed from the grid)",
   text="Every generated grid (1..16 columns, 1..3 players, all note characters, keysounds, decoration, LF/CRLF, arbitrary row counts) must decode to exactly the model's notes in strictly increasing position order; column count, string form, NoteData(chart)/NoteData(NoteData) agree; every ordering operator agrees with the position order on adjacent, generated and free-standing pairs. Sampled, not exhaustive.",
   note="Trusted: renderer/expected-note computation in vf/gen_notes.py; only well-formed note data is generated, as the quantifier states.")
CHECKS["C08"] = dict(level="exploration", ref="DESIGN.md section 5 C08",
   technique="property-based round trip (encode -> decode) plus a structural model of the canonical text",
   text="from_notes over generated position-sorted streams (arbitrary denominators bounded per measure, absent players, gaps, keysounds, empty stream) must read back identically, report the column count, have exactly the sections/measures/rows the statement prescribes, and be a fixed point of decode -> encode; decoded C07-style texts and corpus charts re-encode stably. Sampled.",
   note="Trusted: the decoder (validated by C07), structural reading of '&'/',' lines.")
CHECKS["C15"] = dict(level="exploration", ref="DESIGN.md section 5 C15",
   technique="complete enumeration of the configuration space (core configurations) plus Hypothesis sampling of the whole space against the one documented rule",
   text="The source-selection rule is evaluated on configuration data and compared with TimingData and displaybpm for every core configuration (simfile kind x version x chart kind x 3^11 chart timing property states; complete in the thorough tier, all configurations with at most two non-absent chart properties in the quick tier) with OFFSET/DISPLAYBPM side states rotated, plus a seeded sample of the full product; simfile and chart carry disjoint values so mixing is visible.",
   note="Trusted: own Fraction/Decimal parse of the timing strings; the full product with all side states (~4e8) is sampled, not enumerated; exhaustive refers to the core sets named in the evidence rule.")
CHECKS["C17"] = dict(level="exploration", ref="DESIGN.md section 5 C17",
   technique="property-based testing against an independent table-driven model transcribed from the documentation (Hypothesis + complete enumeration of all behaviour mappings over a fixed simfile family)",
   text="ssc_to_sm must either return the SM simfile the table model predicts (template/blank properties overridden by copied pairs, charts in order) or raise the predicted exception naming the first offending key; source and templates unchanged; sm_to_ssc -> ssc_to_sm round trip equal on every original key and chart. All 5^5 total/partial mappings are enumerated over fixed family members; random sources beyond. Where documentation and code classify a key differently (simfile TIMESIGNATURES, chart LABELS/DISPLAYBPM, three blank-default values) either reading is accepted.",
   note="Trusted: the transcription of the documented property kinds in vf/props/c17.py. Known findings (bare KeyError for SM-unholdable chart keys) are kept out of the random domain and probed on every run.")
CHECKS["C19"] = dict(level="exploration", ref="DESIGN.md section 5 C19",
   technique="property-based testing over generated directory trees on a native temp directory and an in-memory PyFilesystem, oracle computed from the tree and the same filesystem's own listing",
   text="SimfileDirectory, SimfilePack, opendir and openpack are compared with expectations computed from the generated tree (mixed-case extensions, near misses, duplicates, nested and empty directories) and from each file's bytes under the passed strict/encoding options; pack contents compared as sets. Sampled.",
   note="Trusted: CPython codecs for what decodes, msdparser for what is stray text, MemoryFS. Behaviour that depends on listing order is compared against the order the same filesystem reports.")
CHECKS["C20"] = dict(level="exploration", ref="DESIGN.md section 5 C20",
   technique="property-based testing over generated asset directories (native and in-memory) against an own transcription of the documented lookup rules (validity predicate: the answer must lie in the allowed set)",
   text="For every asset kind: named file found case-insensitively (also in sub-directories) wins, else any entry matching the documented pattern, else None; the answer exists, is normalised and is stable when asked again; pack banner by extension priority inside, then beside the pack. Which of several matches is returned is not claimed.",
   note="Trusted: own transcription of the patterns; DISC/DISCIMAGE lookup by name is excluded as the property states.")
CHECKS["C01"] = dict(level="exploration", ref="DESIGN.md section 5 C01, 4.1, 4.2",
   technique="model-based stateful property testing (Hypothesis RuleBasedStateMachine + generated edit histories against a dictionary/list model) with a serialize/parse round-trip oracle and a structural reading by the trusted tokenizer",
   text="Edit histories (set/delete by key and attribute, chart list edits, field and extradata edits) are applied to a real SM simfile and to a model; after every step of the state machine, and at the end of every generated history, str() must be accepted by the strict parser, parse back to the model's items and charts (None values, order, extra components), re-serialize identically, be detected as SM, hold one NOTES parameter per chart with the six fields in order and write ATTACKS/DISPLAYBPM as colon-delimited components. Sampled; msdparser's escaping gap excluded by construction and demonstrated by three known-finding probes.",
   note="Trusted: msdparser.parse_msd as tokenizer, the model in vf/simmodel.py, Hypothesis.")
