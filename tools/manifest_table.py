NOTES = ("Every check is ./check <ID>; it imports simfile from /repo's working tree in a fresh interpreter, is a pure "
         "function of that tree and VERIF_SEED, writes evidence/<ID>.json, prints KNOWN-FINDING lines for entries of "
         "known_findings.json, exits 1 with a VIOLATION line and a replay file under replays/ otherwise; exit 2 is a "
         "harness error. See DESIGN.md.")
NOT_APPLICABLE = {}
CHECKS = {
 "C14": dict(level="exploration", ref="DESIGN.md section 5 C14",
   technique="property-based testing (Hypothesis) + complete enumeration of the tick grid against Fraction/Decimal reference arithmetic",
   text="Complete enumeration of all 192001 tick multiples within +-2000 beats (string/float/Decimal round trips), plus seeded random search over exact constructions, operator pairs in both operand orders, inexact inputs including constructed exact ties and near-ties, and timing-event lists carried through BeatValues and through SM/SSC simfiles into TimingData. Exhaustive on the grid, sampled beyond it; absence outside the generated domain is not shown.",
   note="Trusted: CPython Fraction/Decimal, msdparser tokenizer, Hypothesis."),
}
CHECKS["C11"] = dict(level="exploration", ref="DESIGN.md section 5 C11, 4.5",
   technique="property-based testing against an exact rational reference model (Hypothesis timelines + complete enumeration of small event placements + metamorphic relations)",
   text="time_at/bpm_at compared with an exact Fraction evaluation of the timeline to 1e-9 s at every event beat, warp end, neighbouring tick and generated beat under every EventTag; complete for all sets of up to 4 events on a 6-point beat grid (thorough; 3 quick), sampled beyond; monotonicity, offset-shift and redundant-BPM relations. Absence outside the generated domain and magnitude bound is not shown.",
   note="Trusted: the reference model vf/model_timing.py, CPython Fraction/Decimal, the SSCSimfile -> TimingData reader (C14). Float comparison sound below 1e5 s only.")
CHECKS["C12"] = dict(level="exploration", ref="DESIGN.md section 5 C12, 4.5",
   technique="property-based testing against an exact rational reference model, round trip and metamorphic (redundant BPM insertion) relations",
   text="beat_at judged clause by clause (round trip on unskipped ticks, pause interiors, half-tick tolerance elsewhere, exact expected beat at boundary times for the WARP and default tags, monotonicity, independence of redundant earlier BPM changes) on the same timelines as C11; boundary times are the engine's own time_at values. Complete on the small placement grid, sampled beyond.",
   note="Trusted: vf/model_timing.py; float order equals rational order because distinct event times are >= 6e-4 s apart in the generated domain. Delay-only beats inside warps are not claimed.")
CHECKS["C13"] = dict(level="exploration", ref="DESIGN.md section 5 C13",
   technique="property-based testing against the exact warp-union model and a note grid model (Hypothesis + complete small placements)",
   text="hittable() compared with the warp-union rule on every tick around every event; time_notes compared with the expected sequence for all three options over routine/keysounded note data placed on warp edges and pauses, times to 1e-9 s. Complete on the small placement grid, sampled beyond.",
   note="Trusted: vf/model_timing.py, vf/gen_notes.py (grid -> text renderer and expected notes).")
