NOTES = ("Every check is ./check <ID>; it imports simfile from /repo's working tree in a fresh interpreter, is a pure "
         "function of that tree and VERIF_SEED, writes evidence/<ID>.json, prints KNOWN-FINDING lines for entries of "
         "known_findings.json, exits 1 with a VIOLATION line and a replay file under replays/ otherwise; exit 2 is a "
         "harness error. See DESIGN.md.")
NOT_APPLICABLE = {}
CHECKS = {
 "C14": dict(level="exploration", ref="DESIGN.md section 5 C14",
   technique="property-based testing (Hypothesis) + complete enumeration of the tick grid against Fraction/Decimal reference arithmetic",
   text="Complete enumeration of all 192001 tick multiples within +-2000 beats (string/float/Decimal round trips), plus seeded random search over exact constructions, operator pairs in both operand orders, inexact inputs including constructed exact ties and near-ties, and timing-event lists carried through BeatValues and through SM/SSC simfiles into TimingData. Exhaustive on the grid, sampled beyond it; absence outside the generated domain is not shown.",
   note="Trusted: CPython Fraction/Decimal, msdparser tokenizer, Hypothesis."),
}
