#!/usr/bin/env python3
"""
Sensitivity self-test helper (not a manifest check).

  tools/muttest.py --patch FILE --props C01,C04 [--tier quick] [--seed N]
  tools/muttest.py --sed 's/old/new/' --file simfile/x.py --props C07

Copies /repo's simfile/ and testdata/ to a scratch directory under /tmp, applies the change there,
runs ./check <ID> with VERIF_REPO_ROOT pointing at the copy (evidence and replays go to the scratch
directory too), prints exit codes, removes the copy.  Expected: exit 1 for a mutant that breaks the property.
"""
import argparse, os, shutil, subprocess, sys, tempfile

HERE = os.path.dirname(os.path.dirname(os.path.abspath(__file__)))
ap = argparse.ArgumentParser()
ap.add_argument("--patch")
ap.add_argument("--sed")
ap.add_argument("--file")
ap.add_argument("--props", required=True)
ap.add_argument("--tier", default="quick")
ap.add_argument("--seed", default="1")
ap.add_argument("--repo", default="/repo")
ap.add_argument("--tests", action="store_true", help="also run the repository's test suite on the mutant")
ap.add_argument("--keep", action="store_true")
a = ap.parse_args()
d = tempfile.mkdtemp(prefix="vfmut-")
rc_all = {}
try:
    for sub in ("simfile", "testdata"):
        shutil.copytree(os.path.join(a.repo, sub), os.path.join(d, sub), ignore=shutil.ignore_patterns("__pycache__"))
    if a.patch:
        r = subprocess.run(["patch", "-p1", "-s", "-N", "-f", "-i", os.path.abspath(a.patch)], cwd=d)
        if r.returncode:
            print("PATCH FAILED"); sys.exit(3)
    if a.sed:
        before = open(os.path.join(d, a.file)).read()
        subprocess.run(["sed", "-i", "-E", a.sed, os.path.join(d, a.file)], check=True)
        if open(os.path.join(d, a.file)).read() == before:
            print("SED CHANGED NOTHING"); sys.exit(3)
    if a.tests:
        r = subprocess.run(["/venv/bin/python", "-m", "pytest", "-q", "-x", "-p", "no:cacheprovider", "simfile"], cwd=d,
                           env=dict(os.environ, PYTHONPATH=d, PYTHONDONTWRITEBYTECODE="1"), capture_output=True, text=True)
        print("repo tests on mutant:", "PASS" if r.returncode == 0 else "FAIL", r.stdout.strip().splitlines()[-1:] )
    env = dict(os.environ, VERIF_REPO_ROOT=d, VERIF_EVIDENCE_DIR=os.path.join(d, "evidence"), VERIF_REPLAY_DIR=os.path.join(d, "replays"), VERIF_SEED=a.seed)
    for pid in a.props.split(","):
        r = subprocess.run([os.path.join(HERE, "check"), pid, "--tier", a.tier], env=env, capture_output=True, text=True)
        tail = [l for l in r.stdout.splitlines() if l.startswith(("VIOLATION", "KNOWN", pid))][:4]
        first = r.stdout.strip().splitlines()[:3] if r.returncode == 1 else []
        print(f"{pid}: exit={r.returncode}", "DETECTED" if r.returncode == 1 else ("MISSED" if r.returncode == 0 else "HARNESS-ERROR"))
        for l in (first + tail)[:6]:
            print("   ", l[:300])
        if r.returncode == 2:
            print(r.stderr[-1500:])
        rc_all[pid] = r.returncode
finally:
    if not a.keep:
        shutil.rmtree(d, ignore_errors=True)
    else:
        print("kept", d)
sys.exit(0 if all(v == 1 for v in rc_all.values()) else 1)
