#!/usr/bin/env python3
"""
Confirm a seeded change produced by an isolated sub-agent and run the checks against it.

  tools/seedcheck.py --worktree /tmp/seedwork/C01 --seed 1 --props C01,C04 [--store C01-a] [--tier quick]

Steps (all inside the scratch worktree, never in /repo):
  1. worktree clean?  demo on the unchanged library must exit 0
  2. git apply seedK.diff ; repository test suite must pass (the known-flaky test is ignored) ; demo must exit non-zero
  3. ./check <ID> with VERIF_REPO_ROOT=<worktree> for every listed property -> DETECTED / MISSED
  4. git checkout -- . (undo) ; optionally store patch, demo and meta under /verif/seeded/<name>/
"""
import argparse, json, os, shutil, subprocess, sys, tempfile

HERE = os.path.dirname(os.path.dirname(os.path.abspath(__file__)))
FLAKY = "test_predefined_assets"


def sh(cmd, cwd, env=None, timeout=3600):
    return subprocess.run(cmd, cwd=cwd, env=env, capture_output=True, text=True, timeout=timeout)


def run_tests(wt):
    env = dict(os.environ, PYTHONPATH=wt, PYTHONDONTWRITEBYTECODE="1")
    r = sh(["/venv/bin/python", "-m", "pytest", "-q", "-p", "no:cacheprovider", "simfile"], wt, env)
    failed = [l for l in r.stdout.splitlines() if l.startswith("FAILED")]
    real = [l for l in failed if FLAKY not in l]
    tail = r.stdout.strip().splitlines()[-1:] if r.stdout.strip() else []
    return (not real and ("passed" in (tail[0] if tail else ""))), tail, real


def main():
    ap = argparse.ArgumentParser()
    ap.add_argument("--worktree", required=True)
    ap.add_argument("--seed", required=True)
    ap.add_argument("--props", required=True)
    ap.add_argument("--tier", default="quick")
    ap.add_argument("--seeds", default="1", help="VERIF_SEED values to try, comma separated")
    ap.add_argument("--store")
    a = ap.parse_args()
    wt = os.path.abspath(a.worktree)
    k = a.seed
    patch = os.path.join(wt, f"seed{k}.diff")
    demo = f"seed{k}_demo.py"
    meta_p = os.path.join(wt, f"seed{k}_meta.json")
    report = {"worktree": wt, "seed": k}
    env = dict(os.environ, PYTHONDONTWRITEBYTECODE="1")
    st = sh(["git", "status", "--porcelain", "--", "simfile"], wt)
    if st.stdout.strip():
        print("worktree not clean:", st.stdout)
        return 3
    r0 = sh(["/venv/bin/python", demo], wt, env)
    report["demo_without_change_exit"] = r0.returncode
    ap_ = sh(["git", "apply", "--whitespace=nowarn", patch], wt)
    if ap_.returncode:
        print("git apply failed:", ap_.stderr)
        return 3
    try:
        ok, tail, real = run_tests(wt)
        report["tests_with_change"] = {"pass": ok, "tail": tail, "failed": real}
        r1 = sh(["/venv/bin/python", demo], wt, env)
        report["demo_with_change_exit"] = r1.returncode
        report["demo_with_change_tail"] = (r1.stdout + r1.stderr).strip().splitlines()[-3:]
        confirmed = r0.returncode == 0 and ok and r1.returncode != 0
        report["confirmed"] = confirmed
        results = {}
        scratch = tempfile.mkdtemp(prefix="vfseed-")
        try:
            for pid in a.props.split(","):
                for seed in a.seeds.split(","):
                    e = dict(os.environ, VERIF_REPO_ROOT=wt, VERIF_EVIDENCE_DIR=os.path.join(scratch, "ev"), VERIF_REPLAY_DIR=os.path.join(scratch, "rp"), VERIF_SEED=seed)
                    r = sh([os.path.join(HERE, "check"), pid, "--tier", a.tier], HERE, e, timeout=7200)
                    lines = r.stdout.strip().splitlines()
                    first_msg = next((l for l in lines if not l.startswith(("KNOWN-FINDING", "VIOLATION", "NOTE"))), "")
                    results[f"{pid}@seed{seed}"] = {
                        "exit": r.returncode,
                        "verdict": {0: "MISSED", 1: "DETECTED"}.get(r.returncode, "HARNESS-ERROR"),
                        "message": first_msg[:400],
                    }
                    if r.returncode == 2:
                        results[f"{pid}@seed{seed}"]["stderr"] = r.stderr[-800:]
        finally:
            shutil.rmtree(scratch, ignore_errors=True)
        report["checks"] = results
    finally:
        sh(["git", "checkout", "--", "."], wt)
    print(json.dumps(report, indent=1))
    if a.store:
        d = os.path.join(HERE, "seeded", a.store)
        os.makedirs(d, exist_ok=True)
        shutil.copy(patch, os.path.join(d, "patch.diff"))
        shutil.copy(os.path.join(wt, demo), os.path.join(d, "demo.py"))
        meta = json.load(open(meta_p)) if os.path.exists(meta_p) else {}
        meta["verification"] = {
            "ran": [
                f"demo on unchanged worktree -> exit {report['demo_without_change_exit']}",
                f"git apply patch.diff; pytest simfile -> {'pass' if report['tests_with_change']['pass'] else 'FAIL'} {report['tests_with_change']['tail']}",
                f"demo with change -> exit {report['demo_with_change_exit']}",
            ]
            + [f"./check {kk.split('@')[0]} --tier {a.tier} (VERIF_SEED={kk.split('seed')[-1]}) against the changed tree -> {v['verdict']}" for kk, v in report["checks"].items()],
            "confirmed": report["confirmed"],
            "checks": report["checks"],
        }
        json.dump(meta, open(os.path.join(d, "meta.json"), "w"), indent=1)
    return 0


if __name__ == "__main__":
    sys.exit(main())
