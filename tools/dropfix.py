#!/usr/bin/env python3
"""tools/dropfix.py <path-substring>...: remove the sections touching those files from notes/candidate-fixes.diff
(used when a candidate fix has been committed to /repo, so the remaining diff still applies)."""
import re, sys, os
p = os.path.join(os.path.dirname(os.path.dirname(os.path.abspath(__file__))), "notes", "candidate-fixes.diff")
s = open(p).read()
parts = re.split(r"(?m)^(?=diff -ruN )", s)
keep = [x for x in parts if x.strip() and not any(k in x.splitlines()[0] for k in sys.argv[1:])] if sys.argv[1:] else parts
open(p, "w").write("".join(keep))
print("sections left:", [x.splitlines()[0].split()[-1] for x in keep if x.strip()])
