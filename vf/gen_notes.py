"""
Note grid model (DESIGN.md 4.4): a chart is data first; the expected notes are computed from the grid, never by
parsing.  Shared by C07, C08, C10 (corpus), C13.

grid = {"cols": n,
        "players": [[measure, ...], ...],          measure = {"rows": R, "cells": [[r, c, type_char, keysound|None], ...]}
        "deco": {"eol": "\n"|"\r\n", "lead": [...], "trail": [...], "pre": [...], "post": [...], "final": bool}}
"""
from fractions import Fraction as F

from hypothesis import strategies as st

NOTE_CHARS = "1234AFKLM"
ROWS_COMMON = [1, 2, 3, 4, 5, 6, 8, 12, 16, 24, 32, 48, 64, 96, 192]


def expected_notes(grid):
    """[(player, beat Fraction, column, type_char, keysound)] in text order = (player, beat, column) order"""
    out = []
    for p, measures in enumerate(grid["players"]):
        for m, meas in enumerate(measures):
            R = meas["rows"]
            for r, c, t, ks in sorted(meas["cells"], key=lambda x: (x[0], x[1])):
                out.append((p, F(4 * m * R + 4 * r, R), c, t, ks))
    return out


def render(grid):
    cols = grid["cols"]
    d = grid.get("deco") or {}
    eol = d.get("eol", "\n")
    lead = d.get("lead") or [""]
    trail = d.get("trail") or [""]
    pre = d.get("pre") or [0]
    post = d.get("post") or [0]
    kspad = d.get("kspad") or [0]  # minimum digit count of keysound indices: "[07]" is keysound 7
    ksno = 0
    rowno = 0
    measno = 0
    player_texts = []
    for measures in grid["players"]:
        meas_texts = []
        for meas in measures:
            R = meas["rows"]
            table = {}
            for r, c, t, ks in sorted(meas["cells"], key=lambda x: (x[0], x[1])):
                if ks is not None:
                    w = kspad[ksno % len(kspad)]
                    ksno += 1
                    table[(r, c)] = t + f"[{ks:0{w}d}]"
                else:
                    table[(r, c)] = t
            lines = []
            for r in range(R):
                body = "".join(table.get((r, c), "0") for c in range(cols))
                lines.append(lead[rowno % len(lead)] + body + trail[rowno % len(trail)])
                rowno += 1
            text = eol * pre[measno % len(pre)] + eol.join(lines) + eol + eol * post[measno % len(post)]
            measno += 1
            meas_texts.append(text)
        sep = "," + trail[measno % len(trail)] + eol
        player_texts.append(sep.join(meas_texts))
    amp = "&" + eol
    text = amp.join(player_texts)
    if not d.get("final", True):
        # drop the very last line break (text need not end with one)
        if text.endswith(eol):
            text = text[: -len(eol)]
    return text


def decorated(grid):
    d = grid.get("deco") or {}
    return (
        d.get("eol", "\n") != "\n"
        or any(d.get("lead") or [])
        or any(d.get("trail") or [])
        or any(d.get("pre") or [])
        or any(d.get("post") or [])
        or not d.get("final", True)
        or any(d.get("kspad") or [])
    )


# ------------------------------------------------------------------------------------------------

BLANKS = st.sampled_from(["", "", "", " ", "  ", "\t", " \t "])
deco_strategy = st.fixed_dictionaries(
    {
        "eol": st.sampled_from(["\n", "\n", "\r\n"]),
        "lead": st.lists(BLANKS, min_size=1, max_size=4),
        "trail": st.lists(BLANKS, min_size=1, max_size=4),
        "pre": st.lists(st.integers(0, 2), min_size=1, max_size=3),
        "post": st.lists(st.integers(0, 2), min_size=1, max_size=3),
        "final": st.booleans(),
        "kspad": st.sampled_from([[0], [0], [0], [2, 0], [3], [0, 4, 1]]),
    }
)
plain_deco = st.just({"eol": "\n", "lead": [""], "trail": [""], "pre": [0], "post": [0], "final": True, "kspad": [0]})

keysound = st.one_of(st.none(), st.none(), st.integers(0, 9999), st.sampled_from([0, 7, 10, 255]))
rows_strategy = st.one_of(st.sampled_from(ROWS_COMMON), st.sampled_from(ROWS_COMMON), st.integers(1, 200), st.sampled_from([384, 768, 1000, 250]))


@st.composite
def measures(draw, cols, density=None, chars=NOTE_CHARS, with_keysounds=True):
    R = draw(rows_strategy)
    ncell = R * cols
    k = draw(st.integers(0, min(ncell, 6 if R > 16 else 10)))
    idx = draw(st.lists(st.integers(0, ncell - 1), min_size=k, max_size=k, unique=True))
    cells = []
    for i in sorted(idx):
        ks = draw(keysound) if with_keysounds else None
        cells.append([i // cols, i % cols, draw(st.sampled_from(chars)), ks])
    return {"rows": R, "cells": cells}


@st.composite
def grids(draw, max_measures=6, max_players=3, max_cols=16, deco=True, chars=NOTE_CHARS, with_keysounds=True):
    cols = draw(st.one_of(st.integers(1, max_cols), st.sampled_from([4, 4, 8, 6, 5, 10])))
    cols = min(cols, max_cols)
    nplayers = draw(st.sampled_from([1, 1, 1, 2, 2, 3])) if max_players >= 3 else draw(st.integers(1, max_players))
    players = []
    for _ in range(nplayers):
        n = draw(st.integers(1, max_measures))
        players.append([draw(measures(cols, chars=chars, with_keysounds=with_keysounds)) for _ in range(n)])
    return {"cols": cols, "players": players, "deco": draw(deco_strategy if deco else plain_deco)}


def grid_from_ticks(notes, cols, nplayers=1, min_measures=1):
    """notes: [(tick k, col, type_char, player, keysound)] -> grid with the coarsest row count per measure"""
    from math import gcd

    players = []
    for p in range(nplayers):
        mine = [n for n in notes if n[3] == p]
        last = max([n[0] // 192 for n in mine] + [min_measures - 1])
        ms = []
        for m in range(last + 1):
            inm = [n for n in mine if n[0] // 192 == m]
            g = 192
            for n in inm:
                g = gcd(g, n[0] % 192)
            R = max(192 // g, 4) if inm else 4
            if 192 % R:
                R = 192
            step = 192 // R
            ms.append({"rows": R, "cells": [[(n[0] % 192) // step, n[1], n[2], n[4]] for n in inm]})
        players.append(ms)
    return {"cols": cols, "players": players, "deco": None}


def corpus_charts():
    """[(relative path, chart index)] for every chart of every corpus simfile"""
    import simfile
    from . import gen_timing as G

    out = []
    for rel in G.corpus_timelines():
        sf = simfile.open(G.corpus_path(rel))
        for i in range(len(sf.charts)):
            out.append((rel, i))
    return out


def interleaved_reads(nd, lead=3):
    """two iterators over the same NoteData alive at once, the second `lead` notes ahead; returns both note lists"""
    ia, ib = iter(nd), iter(nd)
    ra, rb = [], []
    for _ in range(lead):
        x = next(ib, None)
        if x is not None:
            rb.append(x)
    done_a = done_b = False
    while not (done_a and done_b):
        x = next(ia, None)
        if x is None:
            done_a = True
        else:
            ra.append(x)
        x = next(ib, None)
        if x is None:
            done_b = True
        else:
            rb.append(x)
    return ra, rb
