"""
Exact rational reference model of a timeline (DESIGN.md 4.5), written from the documentation of
simfile.timing.engine (EventTag order, warp/stop/delay semantics), independent of the engine's
state machine.  Tag numbers are the documented EventTag values.

A timeline (plain data):
  {"bpms": [[k, "120.000"], ...], "stops": [[k, "0.250"], ...], "delays": [...],
   "warps": [[k, length_in_ticks], ...], "offset": "-0.009"}
beats are tick indices k (beat = k/48).
"""
from decimal import Decimal as D
from fractions import Fraction as F

TICK = F(1, 48)
WARP, WARP_END, BPM, DELAY, DELAY_END, STOP, STOP_END = range(7)
TAGS = list(range(7))
TAG_NAMES = ["WARP", "WARP_END", "BPM", "DELAY", "DELAY_END", "STOP", "STOP_END"]


def beat_text(k):
    return f"{k / 48:.3f}"


def render_list(lst):
    return ",".join(f"{beat_text(k)}={v}" for k, v in lst)


def render_warps(lst):
    return ",".join(f"{beat_text(k)}={l / 48:.3f}" for k, l in lst)


def simfile_text(tl, version="0.83"):
    parts = [f"#VERSION:{version};"]
    if tl.get("offset") is not None:
        parts.append(f"#OFFSET:{tl['offset']};")
    parts.append(f"#BPMS:{render_list(tl['bpms'])};")
    parts.append(f"#STOPS:{render_list(tl.get('stops', []))};")
    parts.append(f"#DELAYS:{render_list(tl.get('delays', []))};")
    parts.append(f"#WARPS:{render_warps(tl.get('warps', []))};")
    return "\n".join(parts) + "\n"


SOURCES = ("ssc", "sm", "sm-freezes", "ssc-chart", "sm-stale-freezes", "sm-stale-freezes-first")


def timing_data(tl):
    """the real TimingData for a timeline, through the source kind the timeline names (tl["source"], default "ssc"):
    an SSC simfile, an SM simfile, an SM simfile that spells its stops FREEZES (the documented alias), or an SSC
    chart carrying its own timing data beside a simfile whose own values are decoys"""
    from simfile.sm import SMSimfile
    from simfile.ssc import SSCSimfile
    from simfile.timing import TimingData

    src = tl.get("source") or "ssc"
    text = simfile_text(tl)
    if src == "ssc":
        return TimingData(SSCSimfile(string=text))
    body = text.split("\n", 1)[1]  # without the VERSION line
    if src == "sm":
        return TimingData(SMSimfile(string=body))
    if src == "sm-freezes":
        return TimingData(SMSimfile(string=body.replace("#STOPS:", "#FREEZES:")))
    if src == "sm-stale-freezes":  # STOPS is the standard key: a FREEZES key beside it is just another key
        return TimingData(SMSimfile(string=body + "#FREEZES:0.500=3.000,1.500=5.000;\n"))
    if src == "sm-stale-freezes-first":
        return TimingData(SMSimfile(string="#FREEZES:0.500=3.000,1.500=5.000;\n" + body))
    if src == "ssc-chart":
        # the version is a number (0.7 or later: the chart's own timing data counts) however it is spelled
        decoy = "#VERSION:" + (tl.get("version") or "0.83") + ";\n#OFFSET:9.999;\n#BPMS:0.000=77.000;\n#STOPS:1.000=7.000;\n#DELAYS:2.000=7.000;\n#WARPS:3.000=7.000;\n"
        sim = SSCSimfile(string=decoy + "#NOTEDATA:;\n" + body + "#NOTES:\n0000\n0000\n0000\n0000\n;\n")
        return TimingData(sim, sim.charts[0])
    raise ValueError(src)


class Model:
    def __init__(self, tl):
        self.bpms = [(F(k, 48), F(D(v))) for k, v in tl["bpms"]]
        self.bpm_dec = [(F(k, 48), D(v)) for k, v in tl["bpms"]]
        self.stops = [(F(k, 48), F(D(v))) for k, v in tl.get("stops", [])]
        self.delays = [(F(k, 48), F(D(v))) for k, v in tl.get("delays", [])]
        raw = sorted((F(k, 48), F(k + l, 48)) for k, l in tl.get("warps", []))
        self.raw_warps = raw
        self.warps = []
        for s, e in raw:
            if self.warps and s <= self.warps[-1][1]:
                self.warps[-1][1] = max(self.warps[-1][1], e)
            else:
                self.warps.append([s, e])
        self.offset = F(D(tl["offset"])) if tl.get("offset") not in (None, "") else F(0)
        self.stop_at = dict(self.stops)
        self.delay_at = dict(self.delays)
        # breakpoints of the piecewise-linear elapsed() function
        pts = {F(0)}
        pts.update(b for b, _ in self.bpms)
        for s, e in self.warps:
            pts.add(s)
            pts.add(e)
        self.pts = sorted(p for p in pts if p >= 0)
        # cumulative elapsed at each breakpoint
        self.cum = [F(0)]
        for a, c in zip(self.pts, self.pts[1:]):
            self.cum.append(self.cum[-1] + self._seg(a, c))

    def in_warp(self, b):
        return any(s <= b < e for s, e in self.warps)

    def bpm(self, b):
        if b < 0:
            return self.bpms[0][1]
        cur = self.bpms[0][1]
        for x, v in self.bpms:
            if x <= b:
                cur = v
            else:
                break
        return cur

    def bpm_decimal(self, b):
        cur = self.bpm_dec[0][1]
        if b < 0:
            return cur
        for x, v in self.bpm_dec:
            if x <= b:
                cur = v
            else:
                break
        return cur

    def _seg(self, a, c):
        """elapsed seconds between breakpoint a and any c inside the piece starting at a"""
        if self.in_warp(a):
            return F(0)
        return (c - a) * 60 / self.bpm(a)

    def elapsed(self, b):
        if b < 0:
            return b * 60 / self.bpms[0][1]
        # last breakpoint <= b
        lo, hi = 0, len(self.pts) - 1
        while lo < hi:
            mid = (lo + hi + 1) // 2
            if self.pts[mid] <= b:
                lo = mid
            else:
                hi = mid - 1
        return self.cum[lo] + self._seg(self.pts[lo], b)

    def time(self, b, tag=STOP):
        t = -self.offset + self.elapsed(b)
        for p, v in self.stops:
            if p < b or (p == b and tag >= STOP_END):
                t += v
        for p, v in self.delays:
            if p < b or (p == b and tag >= DELAY_END):
                t += v
        return t

    def arrival(self, b):
        return self.time(b, WARP)

    def departure(self, b):
        return self.time(b, STOP_END)

    def unhittable(self, b):
        return self.in_warp(b) and b not in self.stop_at and b not in self.delay_at

    def event_beats(self):
        s = set()
        for lst in (self.bpms, self.stops, self.delays):
            s.update(b for b, _ in lst)
        for a, e in self.raw_warps:
            s.add(a)
            s.add(e)
        for a, e in self.warps:
            s.add(a)
            s.add(e)
        return s

    def probe_beats(self, extra=(), offgrid=False):
        """event beats, warp ends, their neighbouring ticks (with offgrid: also the half ticks around them, which lie
        off the tick grid - negative ones around beat 0 included), and a few fixed ones"""
        p = set()
        for b in self.event_beats():
            p.update((b - TICK, b, b + TICK))
            if offgrid:
                p.update((b - TICK / 2, b + TICK / 2))
        if offgrid:
            p.update((-TICK / 2, -TICK / 3, TICK / 2))
        p.update((F(-1), F(-3, 2), F(0)))
        last = max(self.event_beats() | {F(0)})
        p.update((last + 1, last + 7))
        p.update(extra)
        return sorted(p)

    def pauses(self):
        """[(start_time, end_time, beat)] for every stop and delay (exact)."""
        out = []
        for p, v in self.delays:
            out.append((self.time(p, DELAY), self.time(p, DELAY_END), p))
        for p, v in self.stops:
            out.append((self.time(p, STOP), self.time(p, STOP_END), p))
        return out

    def event_times(self):
        ts = set()
        for b in self.event_beats():
            for tag in (WARP, DELAY_END, STOP_END):
                ts.add(self.time(b, tag))
        return sorted(ts)

    def coincidences(self):
        """classification labels for the non-trivial rule"""
        labs = set()
        beats = {}
        for name, lst in (("bpm", self.bpms[1:]), ("stop", self.stops), ("delay", self.delays)):
            for b, _ in lst:
                beats.setdefault(b, set()).add(name)
        for s, e in self.raw_warps:
            beats.setdefault(s, set()).add("warp")
        for b, kinds in beats.items():
            if len(kinds) >= 2:
                labs.add("same-beat:" + "+".join(sorted(kinds)))
            if b == 0:
                labs.add("event-at-0")
        for name, lst in (("bpm", self.bpms[1:]), ("stop", self.stops), ("delay", self.delays)):
            for b, _ in lst:
                for s, e in self.warps:
                    if b == s:
                        labs.add(f"{name}-at-warp-start")
                    elif s < b < e:
                        labs.add(f"{name}-inside-warp")
                    elif b == e:
                        labs.add(f"{name}-at-warp-end")
        for i, (s, e) in enumerate(self.raw_warps):
            for s2, e2 in self.raw_warps[i + 1:]:
                if s2 < e:
                    labs.add("warps-overlap" if e2 > e else "warps-nested")
                elif s2 == e:
                    labs.add("warps-touch")
        return labs
