"""
MSD text generator (DESIGN.md 4.3): a document is a list of segments; the generator knows which segments lie
outside every parameter (stray text, blanks, comments), so "the same text with the stray text removed" is obtained by
dropping segments, not by re-tokenising.

segment = [kind, text]   kind in {"bom", "param", "blank", "comment", "stray"}
"""
from hypothesis import strategies as st

KEYS = [
    "TITLE", "title", "Artist", "SUBTITLE", "VERSION", "version", "Version", "NOTES", "notes", "Notes", "NOTEDATA",
    "notedata", "NoteData", "ATTACKS", "attacks", "DISPLAYBPM", "displaybpm", "DisplayBPM", "BPMS", "bpms", "NOTES2",
    "notes2", "STEPSTYPE", "stepstype", "CREDIT", "OFFSET", "FOO", "foo", "", " A", "B ", "K\\:1", "é", "straße",
    # keys written with a backslash escape inside or in front of them: the tokenizer's unescaped key is what counts
    "VER\\SION", "\\version", "NOTE\\S", "NOTE\\DATA", "TI\\TLE",
    # aliases next to their standard keys: both are ordinary keys of the mapping and both are written back
    "BGCHANGES", "ANIMATIONS", "animations", "STOPS", "FREEZES", "freezes", "BGCHANGES", "ANIMATIONS",
]
# whitespace other than blank/tab/CR/LF that str.strip() removes as well ("whitespace-trimmed" chart fields)
RARE_WS = ["\u3000", "\xa0", "\x0b", "\x0c", "\x1c", "\x1f", "\u2028", "\x85", "\u2003"]
ATOMS = list("ab01 ") + ["\n", "\n", "\r\n", ",", "=", ".", "\\:", "\\;", "\\\\", "\\#", "\\/", "//c #x:y;\n", "/", "#", "é", "ミ", "  ", "\t", "\ufeff"]
comp = st.lists(st.sampled_from(ATOMS), max_size=6).map("".join)
notes_comp = st.sampled_from(["0000\n0000\n0000\n0000\n", "\n1000\n0100\n,\n0010\n0001\n", "", " 1 ", "0"])
STRAY = ["x", "stray text", ": ;", "SUBTITLE:;\n", "junk ", ";", "a\nb", "0000"]
BLANK = ["\n", " \n", "\r\n", "\t", "  ", "\n\n"]
TERMS = [";", ";", ";", ";\n", ";\n", ";\r\n", "\n", "\r\n", ""]


@st.composite
def param_segment(draw, keys=KEYS, force_key=None):
    k = force_key if force_key is not None else draw(st.sampled_from(keys))
    nc = draw(st.sampled_from([0, 1, 1, 1, 1, 2, 3, 5, 6, 6, 7, 8]))
    comps = []
    for i in range(nc):
        if k.upper() in ("NOTES", "NOTES2") and i == nc - 1 and draw(st.booleans()):
            comps.append(draw(notes_comp))
        else:
            comps.append(draw(comp))
        if draw(st.integers(0, 7)) == 0:
            ws = draw(st.sampled_from(RARE_WS))
            side = draw(st.integers(0, 2))
            comps[-1] = (ws if side != 1 else "") + comps[-1] + (ws if side != 0 else "")
    body = "#" + ":".join([k] + comps)
    term = draw(st.sampled_from(TERMS))
    return ["param", body + term], term.startswith(";")


@st.composite
def documents(draw, max_params=8, chart_doc=False):
    """returns {"segs": [[kind, text], ...]}"""
    segs = []
    n = draw(st.integers(0, max_params))
    lead = draw(st.integers(0, 13))
    if lead >= 12:
        # a long preamble (licence banner, blank lines) that pushes the first parameter to / across a multiple of 4096
        k = draw(st.sampled_from([1, 1, 2]))
        plen = k * 4096 + draw(st.integers(-12, 4))
        if lead == 12:
            width = draw(st.sampled_from([60, 79, 4200]))
            body = ""
            while len(body) < plen:
                body += "// " + "x" * min(width, max(0, plen - len(body) - 4)) + "\n"
            segs.append(["comment", body[: max(0, plen - 1)] + "\n"])
        else:
            segs.append(["blank", "\n" * plen])
    elif lead == 0:
        segs.append(["stray", draw(st.sampled_from(["junk ", "x\n", "stray"]))])
    elif lead == 1:
        segs.append(["blank", draw(st.sampled_from(BLANK))])
    elif lead == 2:
        segs.append(["comment", "// leading #X:y;\n"])
    bom = draw(st.integers(0, 9)) == 0 and not segs
    terminated = True
    first = True
    for i in range(n):
        force = None
        if first and chart_doc:
            force = draw(st.sampled_from(["NOTEDATA", "NOTEDATA", "notedata", "NoteData"]))
        elif first and draw(st.integers(0, 3)) == 0:
            force = draw(st.sampled_from(["VERSION", "version", "Version", "VER\\SION", "\\Version", "versio\\n"]))
        seg, terminated = draw(param_segment(force_key=force))
        if first and bom:
            segs.append(["bom", "﻿"])
        segs.append(seg)
        first = False
        if terminated:
            kind = draw(st.integers(0, 7))
            if kind == 0:
                segs.append(["stray", draw(st.sampled_from(STRAY))])
            elif kind in (1, 2):
                segs.append(["blank", draw(st.sampled_from(BLANK))])
            elif kind == 3:
                segs.append(["comment", "// hi #X:y;\n"])
    extra = draw(st.integers(0, 15))
    if extra == 0 and terminated:
        # a very long component with an escaped metacharacter exactly on / next to a multiple of 4096 (up to 65536)
        k = draw(st.sampled_from([1, 1, 2, 4, 16, 16]))
        back = draw(st.integers(-2, 5))
        tok = draw(st.sampled_from(["\\//", "\\//", "\\:", "\\;", "\\\\", "\\//x"]))
        key = draw(st.sampled_from(["BANNER", "BGCHANGES", "NOTES2", "FOO"]))
        segs.append(["param", "#" + key + ":" + "x" * max(0, k * 4096 - back) + tok + draw(st.sampled_from(["", "y", "tail"])) + ";\n"])
    elif extra in (2, 3) and terminated:
        # an alias next to its standard key where the standard key is key-only or empty: two different parameters
        std, alias, val = draw(st.sampled_from([("NOTES", "NOTES2", "0000\n0000\n"), ("STOPS", "FREEZES", "1.000=2.000"), ("BGCHANGES", "ANIMATIONS", "1.000=x.png"), ("NOTES", "NOTES2", "1")]))
        first = "#" + std + draw(st.sampled_from([";", ";", ":;"])) + "\n"
        second = "#" + alias + ":" + val + ";\n"
        if std == "NOTES" and draw(st.booleans()):
            segs.append(["param", "#NOTEDATA:;\n"])
        pair = [first, second] if draw(st.booleans()) else [second, first]
        for t in pair:
            segs.append(["param", t])
    elif extra == 1 and terminated:
        # the same colon-containing value under a multi-value key first and under an ordinary key later
        a, b = draw(st.sampled_from([("120", "240"), ("a", "b"), ("TIME=1", "LEN=2"), ("", "x")]))
        mk = draw(st.sampled_from(["DISPLAYBPM", "ATTACKS", "displaybpm"]))
        ok = draw(st.sampled_from(["SUBTITLE", "GENRE", "CHARTNAME", "FOO"]))
        segs.append(["param", f"#{mk}:{a}:{b};\n"])
        if draw(st.booleans()):
            segs.append(["param", "#MID:1;\n"])
        segs.append(["param", f"#{ok}:{a}\\:{b};\n"])
    return {"segs": segs}


@st.composite
def straddle_segment(draw):
    """a first parameter padded so that a multi-byte UTF-8 character starts `back` bytes before a buffer-size boundary
    (4096 / 8192 / 16384): any piecewise decoding or head-block pre-check of the file sees the character cut in two"""
    target = draw(st.sampled_from([8192, 8192, 8192, 4096, 16384]))
    ch = draw(st.sampled_from(["é", "ミ", "𠮷", "😀"]))
    back = draw(st.integers(0, len(ch.encode("utf-8"))))
    head = "#PAD:"
    pad = target - back - len(head)
    return ["param", head + "x" * pad + ch + draw(st.sampled_from(["", "tail", "é"])) + ";\n"]


def render(doc, drop_stray=False):
    text = "".join(t for k, t in doc["segs"] if not (drop_stray and k == "stray"))
    if text.endswith("\\"):
        # a text ending in an unpaired backslash trips an assertion inside msdparser (known finding): complete it
        n = len(text) - len(text.rstrip("\\"))
        if n % 2 == 1:
            text += "\n"
    return text


def has_stray(doc):
    return any(k == "stray" and t.strip() for k, t in doc["segs"])


# ----------------------------------------------------------------------------------------------
# mutations of corpus files (plain-data recipes)

mut_op = st.one_of(
    st.tuples(st.just("trunc"), st.integers(0, 10**6)),
    st.tuples(st.just("splice"), st.integers(0, 10**6), st.integers(0, 10**6), st.integers(0, 400)),
    st.tuples(st.just("dup"), st.integers(0, 10**6), st.integers(1, 400)),
    st.tuples(st.just("put"), st.integers(0, 10**6), st.sampled_from(["#", ";", ":", "\\", "//", "\n", "#NOTES:", "#NOTEDATA:;", "x", "﻿", "#VERSION:0.83;"])),
    st.tuples(st.just("del"), st.integers(0, 10**6), st.integers(1, 60)),
)


def apply_mutations(text, ops):
    for op in ops:
        n = len(text)
        if op[0] == "trunc":
            text = text[: op[1] % (n + 1)]
        elif op[0] == "splice":
            a, b = op[1] % (n + 1), op[2] % (n + 1)
            text = text[:a] + text[b : b + op[3]] + text[a:]
        elif op[0] == "dup":
            a = op[1] % (n + 1)
            text = text[:a] + text[a : a + op[2]] * 2 + text[a + op[2] :]
        elif op[0] == "put":
            a = op[1] % (n + 1)
            text = text[:a] + op[2] + text[a:]
        elif op[0] == "del":
            a = op[1] % (n + 1)
            text = text[:a] + text[a + op[2] :]
    if text.endswith("\\"):
        k = len(text) - len(text.rstrip("\\"))
        if k % 2 == 1:
            text += "\n"
    return text


def corpus_texts():
    from . import gen_timing as G

    return G.corpus_timelines()


def read_corpus(rel):
    from . import gen_timing as G

    with open(G.corpus_path(rel), encoding="utf-8", newline="") as f:
        return f.read()


@st.composite
def corpus_mutations(draw):
    rel = draw(st.sampled_from(corpus_texts()))
    ops = draw(st.lists(mut_op, min_size=0, max_size=4))
    # keep big files manageable: mostly work on a prefix
    head = draw(st.sampled_from([None, 2000, 6000, 20000]))
    return {"kind": "corpus_mut", "path": rel, "head": head, "ops": [list(o) for o in ops]}


def corpus_mut_text(case):
    t = read_corpus(case["path"])
    if case.get("head"):
        t = t[: case["head"]]
    return apply_mutations(t, case["ops"])
