"""
"custom" part: an atheris (libFuzzer) campaign per shard, seeded corpus on even shards, empty corpus on odd ones.
A run that stops on its budget is simply the end of the search (inconclusive beyond it), never a violation.
"""
import json
import os
import re
import shutil
import subprocess
import sys
import tempfile

from . import core


def atheris_available():
    deps = os.path.join(core.VERIF_ROOT, ".deps")
    r = subprocess.run([sys.executable, "-c", "import atheris"], env=dict(os.environ, PYTHONPATH=deps), capture_output=True)
    return r.returncode == 0


def make_part(prop_id, runs_per_shard, max_len=600):
    def run(stats, shard, nshards, seed, shrink):
        if not atheris_available():
            if shard == 0:
                stats.notes.append("atheris not importable: coverage-guided auxiliary campaign skipped")
            return
        from . import gen_msd as GM

        d = tempfile.mkdtemp(prefix="vf-fz-")
        try:
            corpus = os.path.join(d, "corpus")
            out = os.path.join(d, "out")
            os.makedirs(corpus)
            os.makedirs(out)
            if shard % 2 == 0:
                for i, rel in enumerate(GM.corpus_texts()):
                    t = GM.read_corpus(rel)
                    with open(os.path.join(corpus, f"seed{i}"), "w", encoding="utf-8", newline="") as f:
                        f.write(t[:max_len])
                for i, t in enumerate(["#TITLE:a;\n#NOTES:a:b:c:d:e:0000;\n", "#VERSION:0.83;\n#NOTEDATA:;\n#NOTES:0000;\n", "#ATTACKS:a:b;#title;\n// c\n"]):
                    with open(os.path.join(corpus, f"hand{i}"), "w") as f:
                        f.write(t)
            env = dict(os.environ, PYTHONPATH=core.VERIF_ROOT, PYTHONDONTWRITEBYTECODE="1", PYTHONWARNINGS="ignore")
            cmd = [
                sys.executable, "-B", "-W", "ignore", "-m", "vf.fuzz_target", prop_id, out,
                f"-runs={runs_per_shard}", f"-seed={(seed % (2**31 - 1)) or 1}", f"-max_len={max_len}",
                "-print_final_stats=1", f"-artifact_prefix={out}/", "-timeout=30", "-rss_limit_mb=4096", corpus,
            ]
            r = subprocess.run(cmd, cwd=core.VERIF_ROOT, env=env, capture_output=True, text=True)
            log = r.stderr + r.stdout
            m = re.search(r"stat::number_of_executed_units:\s*(\d+)", log)
            execs = int(m.group(1)) if m else 0
            vio = os.path.join(out, "violation.json")
            if os.path.exists(vio):
                data = json.load(open(vio))
                case = {"kind": "raw", "text": data["text"], "files": False}
                stats.cases += 1
                stats.parts["atheris"] += 1
                if stats.violation is None:
                    stats.violation = (case, data["message"], "atheris")
                return
            if r.returncode not in (0,) and not m:
                stats.notes.append(f"atheris shard {shard}: exit {r.returncode}, no statistics; tail: {log[-300:]!r}")
                return
            stats.cases += execs
            stats.evals += execs
            stats.parts["atheris"] += execs
            stats.labels["atheris-" + ("seeded-corpus" if shard % 2 == 0 else "empty-corpus")] += execs
            cov = re.findall(r"cov: (\d+)", log)
            if cov:
                stats.notes.append(f"atheris shard {shard}: {execs} executions, final edge coverage {cov[-1]}")
        finally:
            shutil.rmtree(d, ignore_errors=True)

    return {"name": "atheris", "kind": "custom", "run": run}
