"""
Reference model of note grouping / counting / ungrouping (DESIGN.md C09, C10), plus the stream generators the two
properties share.

Written from the documentation of simfile.notes.group / simfile.notes.count and from the property statements, on
plain tuples - no library objects, no streaming buffer.  Two passes:

  pass 1 (fates)   per column, look at the sequence of *included* notes: a head followed directly by a tail is joined
                   with it; a head followed by anything else, or by nothing, is an orphan head; a tail not directly
                   preceded by a head is an orphan tail.
  pass 2 (items)   walk the stream once, in stream order: plain notes as they are, a joined head as a note-with-tail at
                   the head's position, the tail of a joined pair not at all, orphans per policy.

  rows             maximal runs of consecutive items with equal beats, split per same-beat mode.

note   = (beat: Fraction, column: int, type_char: str, player: int, keysound: int | None)
item   = ("N",) + note            a plain Note
       | ("W",) + note + (tail_beat,)   a NoteWithTail
group  = tuple of items
"""
from fractions import Fraction as F

from hypothesis import strategies as st

ALL_TYPES = "1234AFKLM"
HEADS = ("2", "4")
TAIL = "3"
COUNT_DEFAULT = "124L"  # "Taps, holds, rolls, and lifts are eligible for counting."
MODES = ("separate", "by_type", "all")
POLICIES = ("raise", "keep", "drop")
POLICY_PAIRS = [(h, t) for h in POLICIES for t in POLICIES]

PLAIN, ORPHAN_HEAD, ORPHAN_TAIL = "plain", "orphan_head", "orphan_tail"


def notes_from_spec(spec, player=0):
    """spec rows [[bn, bd], column, type_char, keysound] -> model notes"""
    return [(F(b[0], b[1]), c, t, player, ks) for b, c, t, ks in spec]


def fates(notes, include=ALL_TYPES):
    """Pass 1.  List parallel to `notes`: None (type not included) | PLAIN | ("joined", tail_index) |
    ("closes", head_index) | ORPHAN_HEAD | ORPHAN_TAIL"""
    out = [None] * len(notes)
    by_col = {}
    for i, n in enumerate(notes):
        if n[2] in include:
            by_col.setdefault(n[1], []).append(i)
    for seq in by_col.values():
        last = len(seq) - 1
        for k, i in enumerate(seq):
            t = notes[i][2]
            if t in HEADS:
                if k < last and notes[seq[k + 1]][2] == TAIL:
                    out[i] = ("joined", seq[k + 1])
                else:
                    out[i] = ORPHAN_HEAD  # interrupted by another note in its column, or never closed
            elif t == TAIL:
                if k > 0 and notes[seq[k - 1]][2] in HEADS:
                    out[i] = ("closes", seq[k - 1])
                else:
                    out[i] = ORPHAN_TAIL  # no open head in its column
            else:
                out[i] = PLAIN
    return out


def split_row(row, mode):
    if mode == "separate":
        return [(it,) for it in row]
    if mode == "all":
        return [tuple(row)]
    order, by = [], {}
    for it in row:
        t = it[3]
        if t not in by:
            by[t] = []
            order.append(t)  # order of first appearance on the row
        by[t].append(it)
    return [tuple(by[t]) for t in order]


def rows_of(items):
    out = []
    for it in items:
        if out and out[-1][-1][1] == it[1]:
            out[-1].append(it)
        else:
            out.append([it])
    return out


class Model:
    def __init__(self, notes, include=ALL_TYPES):
        self.notes = notes
        self.include = include
        self.fate = fates(notes, include)
        self.orphan_heads = [i for i, f in enumerate(self.fate) if f == ORPHAN_HEAD]
        self.orphan_tails = [i for i, f in enumerate(self.fate) if f == ORPHAN_TAIL]
        self.joined = [i for i, f in enumerate(self.fate) if type(f) is tuple and f[0] == "joined"]

    def included(self):
        return [n for n, f in zip(self.notes, self.fate) if f is not None]

    def items(self, join, orphaned_head="raise", orphaned_tail="raise"):
        """Pass 2 -> (items in stream order, orphans that fall under a RAISE policy)"""
        out, raisers = [], []
        notes = self.notes
        for i, n in enumerate(notes):
            f = self.fate[i]
            if f is None:
                continue
            if not join or f == PLAIN:
                out.append(("N",) + n)
            elif f == ORPHAN_HEAD or f == ORPHAN_TAIL:
                pol = orphaned_head if f == ORPHAN_HEAD else orphaned_tail
                if pol == "raise":
                    raisers.append(n)
                elif pol == "keep":
                    out.append(("N",) + n)
            elif f[0] == "joined":
                out.append(("W",) + n + (notes[f[1]][0],))
            # ("closes", i): the tail of a joined pair is not emitted
        return out, raisers

    def groups(self, mode, join, orphaned_head="raise", orphaned_tail="raise"):
        """-> ("raise", [orphan notes]) | ("ok", [group, ...])"""
        items, raisers = self.items(join, orphaned_head, orphaned_tail)
        if raisers:
            return "raise", raisers
        out = []
        for row in rows_of(items):
            out.extend(split_row(row, mode))
        return "ok", out

    # ---- classification (labels / non-trivial rule), not part of the oracle

    def shape(self):
        notes, fate = self.notes, self.fate
        per_col = {}
        for i, n in enumerate(notes):
            if fate[i] is not None:
                per_col.setdefault(n[1], []).append(i)
        nxt = {}
        for seq in per_col.values():
            for a, b in zip(seq, seq[1:]):
                nxt[a] = b
        interrupters = set()
        spans = []
        for i, n in enumerate(notes):
            if fate[i] is not None and n[2] in HEADS:
                j = nxt.get(i)
                spans.append((i, j if j is not None else len(notes)))
                if fate[i] == ORPHAN_HEAD:
                    if j is None:
                        interrupters.add("unclosed")
                    else:
                        t = notes[j][2]
                        interrupters.add({"1": "tap", "M": "mine", "L": "lift", "2": "head", "4": "head"}.get(t, "other"))
        max_open = 0
        ends = []  # spans are sorted by start; a hold is open from its head up to the note that closes/interrupts it
        for a, b in spans:
            ends = [e for e in ends if e > a]
            ends.append(b)
            max_open = max(max_open, len(ends))
        joined_overlap = 0  # joined holds open at the same time
        ends = []
        for a in self.joined:
            ends = [e for e in ends if e > a]
            ends.append(fate[a][1])
            joined_overlap = max(joined_overlap, len(ends))
        mixture = False
        inc = [n for n, f in zip(notes, fate) if f is not None]
        for a, b in zip(inc, inc[1:]):
            if a[0] == b[0] and a[2] != b[2]:
                mixture = True
        if not mixture:
            seen = {}
            for n in inc:
                seen.setdefault(n[0], set()).add(n[2])
            mixture = any(len(v) > 1 for v in seen.values())
        return {
            "heads": len(spans),
            "joined": len(self.joined),
            "orphan_heads": len(self.orphan_heads),
            "orphan_tails": len(self.orphan_tails),
            "interrupters": interrupters,
            "max_open": max_open,
            "joined_overlap": joined_overlap,
            "mixture": mixture,
        }


# ---------------------------------------------------------------------------------------------------------------
# counting, as the documentation of simfile.notes.count describes it


def count_groups(groups, minimum=1):
    return sum(1 for g in groups if len(g) >= minimum)


def count_steps(notes, minimum=1, include=COUNT_DEFAULT, mode="all"):
    """taps, holds, rolls and lifts are eligible; several on one beat count once; a jump needs 2, a hand 3"""
    _, groups = Model(notes, include).groups(mode, False)
    return count_groups(groups, minimum)


def count_mines(notes):
    return sum(1 for n in notes if n[2] == "M")


def count_heads(notes, head, orphaned_head="raise", orphaned_tail="raise"):
    """number of items that joining `head` and tails emits; -> ("raise", orphans) | ("ok", count)"""
    kind, res = Model(notes, head + TAIL).groups("separate", True, orphaned_head, orphaned_tail)
    return (kind, res) if kind == "raise" else (kind, len(res))


# ---------------------------------------------------------------------------------------------------------------
# ungrouping (C10), for hand-built grouped sequences: groups of items


def splitting_notes(groups):
    """notes (plain ones, and the heads of other notes-with-tail) lying strictly between the head and the tail of a
    note-with-tail on their column"""
    holds = [it for g in groups for it in g if it[0] == "W"]
    out = []
    for g in groups:
        for it in g:
            if any(h is not it and h[2] == it[2] and h[4] == it[4] and h[1] < it[1] < h[6] for h in holds):
                out.append(tuple(it[1:6]))
    return out


def flat_notes(groups):
    """every note the grouped sequence stands for: plain notes, heads, and a tail (no keysound index) per hold"""
    out = []
    for g in groups:
        for it in g:
            out.append(tuple(it[1:6]))
            if it[0] == "W":
                out.append((it[6], it[2], TAIL, it[4], None))
    return out


def position(n):
    return (n[3], n[0], n[1])


# ---------------------------------------------------------------------------------------------------------------
# finite grid (shared by C09 and C10)


def grid_stream(index, rows, cols, kinds, beats, keysounds=None):
    """index -> stream (row-major digits in base len(kinds)); kinds[0] is the empty cell"""
    out = []
    base = len(kinds)
    for cell in range(rows * cols):
        index, d = divmod(index, base)
        if d:
            k = kinds[d]
            out.append((beats[cell // cols], cell % cols, k, 0, keysounds.get(k) if keysounds else None))
    return out


GRID_BEATS = [F(0), F(1, 2), F(4, 3), F(4), F(19, 4)]


def grid_chunks(total, chunk, shard, nshards):
    i = 0
    lo = 0
    while lo < total:
        if i % nshards == shard:
            yield lo, min(lo + chunk, total)
        lo += chunk
        i += 1


# ---------------------------------------------------------------------------------------------------------------
# Hypothesis generators: streams as plain data
#   {"cols": n, "player": p, "notes": [[[bn, bd], column, type_char, keysound], ...]}   sorted by (beat, column)

KEYSOUND = st.one_of(st.none(), st.none(), st.none(), st.integers(0, 9999), st.sampled_from([0, 5, 7, 255]))
DELTAS = [F(1, 4), F(1, 2), F(1), F(1), F(1, 3), F(1, 48), F(2), F(4), F(7, 64), F(3, 16), F(1, 192), F(5, 7)]
STARTS = [F(0), F(0), F(0), F(1, 2), F(4), F(47, 48), F(3), F(100, 3)]
# cell alphabets: '0' = empty
PROFILES = [
    "000001122334M",
    "00023",
    "000233",
    "0002234",
    "0022334411MLFKA",
    "00001234LM",
    "0000000123",
    "023",
    "00012234MLF1",
    "0000243",
]


@st.composite
def streams(draw, max_cols=6, max_rows=12, tail_keysounds=True):
    cols = draw(st.integers(1, max_cols))
    nrows = draw(st.integers(1, max_rows))
    prof = draw(st.sampled_from(PROFILES))
    cells = draw(st.lists(st.sampled_from(prof), min_size=nrows * cols, max_size=nrows * cols))
    deltas = draw(st.lists(st.sampled_from(DELTAS), min_size=nrows, max_size=nrows))
    b = draw(st.sampled_from(STARTS))
    beats = []
    for d in deltas:
        beats.append(b)
        b = b + d
    n_notes = sum(1 for c in cells if c != "0")
    with_ks = draw(st.sampled_from([False, True, True]))
    ks = draw(st.lists(KEYSOUND, min_size=n_notes, max_size=n_notes)) if with_ks else [None] * n_notes
    notes = []
    k = 0
    for i, t in enumerate(cells):
        if t == "0":
            continue
        bt = beats[i // cols]
        key = ks[k]
        k += 1
        if t == TAIL and not tail_keysounds:
            key = None
        notes.append([[bt.numerator, bt.denominator], i % cols, t, key])
    player = draw(st.sampled_from([0, 0, 0, 1]))
    return {"cols": cols, "player": player, "notes": notes}


INCLUDES = st.one_of(
    st.none(),  # parameter omitted: every type
    st.sampled_from([COUNT_DEFAULT, "23", "43", "234", ALL_TYPES, "123M", "1234LM"]),
    st.sets(st.sampled_from(ALL_TYPES)).map(lambda s: "".join(sorted(s))),
)
