"""
Coverage-guided auxiliary campaign for C03/C04 (atheris on libFuzzer): bytes -> text -> loaders -> oracles.

Run as a subprocess by vf.props.c03 / c04 (thorough tier):
    python -m vf.fuzz_target <C03|C04> <out_dir> [libFuzzer flags] <corpus_dir>
A failing input is written to <out_dir>/violation.json ({"text": ..., "message": ...}) and the process exits 77.
The oracle inside the target is the property's own `check` on a raw-text case, so a finding replays through
./check <ID> --replay.
"""
import json
import os
import sys
import warnings

warnings.filterwarnings("ignore")


def main():
    prop, out_dir = sys.argv[1], sys.argv[2]
    argv = [sys.argv[0]] + sys.argv[3:]
    here = os.path.dirname(os.path.dirname(os.path.abspath(__file__)))
    repo = os.path.abspath(os.environ.get("VERIF_REPO_ROOT", "/repo"))
    sys.path.insert(0, repo)
    sys.path.append(os.path.join(here, ".deps"))
    import atheris

    with atheris.instrument_imports(include=["simfile", "msdparser"]):
        import msdparser  # noqa
        import simfile  # noqa
    assert os.path.abspath(simfile.__file__).startswith(os.path.join(repo, "simfile"))
    from vf import core
    from vf.props import c03, c04

    mod = c03 if prop == "C03" else c04

    def fix(text):
        if text.endswith("\\"):
            n = len(text) - len(text.rstrip("\\"))
            if n % 2 == 1:
                text += "\n"
        return text

    def one(data):
        text = fix(data.decode("utf-8", "replace"))
        case = {"kind": "raw", "text": text, "files": False}
        v = core.run_check(mod, case)
        if not v.ok:
            with open(os.path.join(out_dir, "violation.json"), "w") as f:
                json.dump({"text": text, "message": v.msg}, f)
            sys.stdout.flush()
            os._exit(77)

    atheris.Setup(argv, one)
    atheris.Fuzz()


if __name__ == "__main__":
    main()
