"""
CLI:  python -m vf.run <ID> [--tier quick|thorough] [--replay FILE] [--shards N]

exit 0  property held on everything explored (KNOWN-FINDING lines may be printed)
exit 1  a line  VIOLATION property=<id> replay=<path>
exit 2  harness error (never a violation)
"""
import argparse
import importlib
import json
import multiprocessing
import os
import sys
import time
import traceback
import warnings

warnings.filterwarnings("ignore")

from . import core  # noqa: E402


def _bootstrap_paths():
    root = core.REPO_ROOT
    if root not in sys.path:
        sys.path.insert(0, root)
    deps = os.path.join(core.VERIF_ROOT, ".deps")
    if os.path.isdir(deps) and deps not in sys.path:
        sys.path.append(deps)
    import simfile

    where = os.path.abspath(simfile.__file__)
    if not where.startswith(os.path.join(root, "simfile") + os.sep):
        raise core.HarnessError(f"simfile imported from {where}, expected under {root}")


def load_prop(prop_id):
    return importlib.import_module(f"vf.props.{prop_id.lower()}")


def _share(total, shard, nshards):
    base = total // nshards
    return base + (1 if shard < total % nshards else 0)


def run_shard(args):
    prop_id, tier, seed, shard, nshards = args
    try:
        warnings.filterwarnings("ignore")
        _bootstrap_paths()
        mod = load_prop(prop_id)
        stats = core.Stats()
        shrink = tier == "thorough"
        for pi, part in enumerate(mod.parts(tier)):
            if stats.violation is not None:
                break
            kind = part["kind"]
            name = part["name"]
            if kind == "fixed":
                cases = part["cases"]()
                for i, case in enumerate(cases):
                    if i % nshards != shard:
                        continue
                    v = core.run_check(mod, case)
                    stats.record(case, v, part=name)
                    if stats.violation is not None:
                        break
            elif kind == "enum":
                exhaustive = part.get("exhaustive", True)
                it = part["iter"](shard, nshards)
                complete = True
                for case in it:
                    v = core.run_check(mod, case)
                    stats.record(case, v, part=name, enumerated=True)
                    if stats.violation is not None:
                        complete = False
                        break
                stats.exhaustive_parts[name] = bool(exhaustive and complete)
            elif kind == "hypothesis":
                n = _share(part["examples"], shard, nshards)
                if n > 0:
                    core.hypothesis_run(
                        mod, part["strategy"](), n, core.derive_seed(seed, shard, pi), stats, name, shrink
                    )
            elif kind == "machine":
                n = _share(part["examples"], shard, nshards)
                if n > 0:
                    run_machine(mod, part, n, core.derive_seed(seed, shard, pi), stats, name, shrink)
            elif kind == "custom":
                part["run"](stats, shard, nshards, core.derive_seed(seed, shard, pi), shrink)
            else:
                raise core.HarnessError(f"unknown part kind {kind}")
        return ("ok", stats.to_wire())
    except core.HarnessError as e:
        return ("harness", str(e))
    except BaseException:  # noqa
        return ("harness", traceback.format_exc())


def run_machine(mod, part, n_examples, seed_value, stats, name, shrink):
    import hypothesis
    from hypothesis import HealthCheck, Phase, settings
    from hypothesis.stateful import run_state_machine_as_test

    Machine = part["factory"]()
    Machine.STATS = stats
    Machine.PART = name
    Machine.LAST = None
    Machine.FAILED = False
    phases = [Phase.generate] + ([Phase.shrink] if shrink else [])
    st_ = settings(
        max_examples=n_examples,
        stateful_step_count=part.get("steps", 30),
        database=None,
        deadline=None,
        derandomize=False,
        report_multiple_bugs=False,
        phases=phases,
        suppress_health_check=list(HealthCheck),
        print_blob=False,
        verbosity=hypothesis.Verbosity.quiet,
    )
    try:
        run_state_machine_as_test(hypothesis.seed(seed_value)(Machine), settings=st_)
    except hypothesis.errors.FailedHealthCheck as e:
        raise core.HarnessError(f"machine health check failed: {e}")
    except Exception as e:  # noqa
        if not isinstance(e, core.Violation) and not core.is_library_exception(e):
            raise
        case = Machine.LAST
        # confirm through the pure checker (the replay form)
        v = core.run_check(mod, case)
        msg = v.msg if not v.ok else f"{e} (machine failed but the pure replay passed - flaky history?)"
        stats.cases += 1
        stats.parts[name] += 1
        if stats.violation is None:
            stats.violation = (case, msg, name)


def probe_known_findings(mod, prop_id):
    """Returns (lines, violations[(case,msg)], summary list)."""
    lines, viols, summary = [], [], []
    for f in core.load_known_findings():
        if f["property"] != prop_id:
            continue
        v = core.run_check(mod, f["probe"])
        if f["status"] == "known":
            if not v.ok and f["expect"] in (v.msg or ""):
                lines.append(f"KNOWN-FINDING: property={prop_id} {f['id']}: {f['what']}")
                summary.append({"id": f["id"], "status": "known", "reproduced": True})
            elif v.ok:
                lines.append(f"NOTE: known finding {f['id']} of {prop_id} no longer reproduces")
                summary.append({"id": f["id"], "status": "known", "reproduced": False})
            else:
                viols.append((f["probe"], f"known-finding probe {f['id']} fails differently: {v.msg}"))
                summary.append({"id": f["id"], "status": "known", "reproduced": "differently"})
        else:  # fixed: plain regression case, suppresses nothing
            if not v.ok:
                viols.append((f["probe"], f"regression of fixed finding {f['id']}: {v.msg}"))
            summary.append({"id": f["id"], "status": "fixed", "holds": v.ok})
    return lines, viols, summary


def main(argv=None):
    ap = argparse.ArgumentParser()
    ap.add_argument("prop")
    ap.add_argument("--tier", default=os.environ.get("VERIF_TIER") or "quick", choices=["quick", "thorough"])
    ap.add_argument("--replay")
    ap.add_argument("--shards", type=int, default=core.NSHARDS)
    a = ap.parse_args(argv)
    prop_id = a.prop.upper()
    try:
        seed = int(os.environ.get("VERIF_SEED") or "1")
    except ValueError:
        seed = 1
    t0 = time.time()
    try:
        _bootstrap_paths()
        mod = load_prop(prop_id)

        if a.replay:
            with open(a.replay) as f:
                data = json.load(f)
            case = data["case"] if isinstance(data, dict) and "case" in data else data
            v = core.run_check(mod, case)
            if v.ok:
                print(f"replay of {a.replay}: property {prop_id} holds on this case" + (f" (excluded: {v.excluded})" if v.excluded else ""))
                return 0
            print(v.msg)
            print(f"VIOLATION property={prop_id} replay={os.path.abspath(a.replay)}")
            return 1

        kf_lines, kf_viols, kf_summary = probe_known_findings(mod, prop_id)

        # regression corpus (saved shrunk cases): /verif/corpus/<ID>/*.json
        corpus_dir = os.path.join(core.VERIF_ROOT, "corpus", prop_id)
        corpus_viol = []
        n_corpus = 0
        if os.path.isdir(corpus_dir):
            for fn in sorted(os.listdir(corpus_dir)):
                if fn.endswith(".json"):
                    with open(os.path.join(corpus_dir, fn)) as f:
                        data = json.load(f)
                    case = data["case"] if isinstance(data, dict) and "case" in data else data
                    v = core.run_check(mod, case)
                    n_corpus += 1
                    if not v.ok:
                        corpus_viol.append((case, f"regression corpus {fn}: {v.msg}"))

        nshards = a.shards
        jobs = [(prop_id, a.tier, seed, k, nshards) for k in range(nshards)]
        if nshards == 1:
            results = [run_shard(jobs[0])]
        else:
            ctx = multiprocessing.get_context("fork")
            with ctx.Pool(nshards) as pool:
                results = pool.map(run_shard, jobs, chunksize=1)
        for kind, payload in results:
            if kind != "ok":
                raise core.HarnessError(payload)
        merged = core.merge_wires([p for _, p in results])

        violations = list(kf_viols) + corpus_viol + [(c, m) for (c, m, _part) in merged["violations"]]
        distinct = len(merged["hashes"]) + merged["enum"]
        # top-level `exhaustive` only when every part of the run was a complete finite enumeration; the per-part
        # detail (which finite sub-domains were enumerated completely) is in `exhaustive_parts`
        exhaustive = (
            bool(merged["exhaustive_parts"])
            and all(merged["exhaustive_parts"].values())
            and all(name in merged["exhaustive_parts"] for name in merged["parts"])
        )
        wall = time.time() - t0

        by_part = {}
        for s_ in merged["samples"]:
            by_part.setdefault(s_["part"], []).append(s_)
        picked = []
        for rnd in range(2):
            for part_name in sorted(by_part):
                if len(by_part[part_name]) > rnd and len(picked) < 8:
                    picked.append(by_part[part_name][rnd])
        samples = [core.trim(s) for s in picked]
        if not samples:
            samples = [{"note": "no non-trivial sample recorded"}]
        coverage = {
            "evaluations": merged["evals"],
            "cases_generated": merged["cases"],
            "distinct_nontrivial": distinct,
            "rule": mod.RULE,
            "samples": samples,
            "exhaustive": exhaustive,
            "exhaustive_parts": merged["exhaustive_parts"],
            "cases_per_part": dict(merged["parts"]),
            "labels": dict(merged["labels"]),
            "excluded_by_rule": dict(merged["excluded"]),
            "regression_corpus_cases": n_corpus,
            "known_findings": kf_summary,
            "shards": nshards,
            "notes": merged["notes"][:20],
        }
        evidence = {
            "property_id": prop_id,
            "tier": a.tier,
            "seed": seed,
            "level": mod.LEVEL,
            "coverage": coverage,
            "assumptions": list(mod.ASSUMPTIONS),
            "wall_s": round(wall, 3),
            "violations": len(violations),
        }
        core.write_evidence(prop_id, evidence)

        for line in kf_lines:
            print(line)
        print(
            f"{prop_id} {a.tier} seed={seed}: cases={merged['cases']} evaluations={merged['evals']} "
            f"distinct_nontrivial={distinct} excluded={sum(merged['excluded'].values())} "
            f"violations={len(violations)} wall={wall:.1f}s"
        )
        if violations:
            seen_v = set()
            uniq = []
            for case, msg in violations:
                h = core.case_hash(case)
                if h not in seen_v:
                    seen_v.add(h)
                    uniq.append((case, msg))
            for case, msg in uniq[:5]:
                path = core.write_replay(prop_id, case, msg)
                print((msg or "")[:2000])
                print(f"VIOLATION property={prop_id} replay={path}")
            return 1
        return 0
    except core.HarnessError as e:
        print(f"HARNESS-ERROR {prop_id}: {e}", file=sys.stderr)
        return 2
    except Exception:  # noqa
        print(f"HARNESS-ERROR {prop_id}:\n{traceback.format_exc()}", file=sys.stderr)
        return 2


if __name__ == "__main__":
    sys.exit(main())
