"""
C19 - Directory and pack discovery finds exactly the right simfiles.

A case is a directory tree (plain data) plus the filesystem flavour and the caller's options.  `check` builds the
tree in a scratch location (native temp dir or fs.memoryfs.MemoryFS; `"fs": "osfs"` is accepted by `check` for
probes but never generated - see the note at OsFs), computes the
expected answers from the tree *and the listing order the same filesystem reports*, and compares them with
SimfileDirectory / SimfilePack / simfile.opendir / simfile.openpack.

Every simfile-named file carries a unique TITLE, so "the same simfile" is checkable by title alone.
"""
import os
import shutil
import tempfile

from hypothesis import strategies as st

from ..core import Verdict, Violation

ID = "C19"
LEVEL = "exploration"
RULE = (
    "Hypothesis draws a directory tree of depth <= 3 (pack directory / song directories / nested directories) from "
    "name pools: simfile names with extensions in mixed case (0..2 of each kind per directory), near misses "
    "(x.sm.old, x.ssca, sm, ssc, x.smx, x.ssc.bak, xsm, ...), images, audio, other files, loose files next to "
    "directories, empty directories, plain-named directories only; every simfile-named file has a unique TITLE and "
    "one of four bodies (plain, stray text after the first parameter, UTF-8 with a non-ASCII title, cp1252-only "
    "bytes); x filesystem {native temp dir, MemoryFS} x ignore_duplicate x strict x encoding "
    "{default, utf-8, cp1252}. Every directory of the tree is examined as a SimfileDirectory and through opendir, "
    "every directory as a SimfilePack and through openpack. Non-trivial = the tree holds at least one simfile-named "
    "file and at least one distractor or decision (near miss, duplicate, mixed-case extension, both kinds in one "
    "directory, simfile in a nested directory, directory without simfiles, or a file whose outcome depends on the "
    "options); distinct = distinct case JSON; evaluations = API observations compared with the model"
)
RULE += " " + 'Added after the seeding rounds: literal backslashes in file and folder names; near-miss names that only case folding turns into .sm/.ssc (x.\\u00dfc, x.\\u017fm); a dangling symbolic link in a directory (native filesystem).'
RULE += " " + "Round 6: near-miss names with a line feed after the extension ('x.sm\\n')."
ASSUMPTIONS = [
    "os.listdir / MemoryFS.listdir report a stable order between two calls on an unchanged directory ('first listed' is taken from the same filesystem object)",
    "CPython codecs define which bytes decode under utf-8 / cp1252 / cp932 / cp949, and what text results",
    "PyFilesystem2 MemoryFS is a correct filesystem",
    "directories never carry simfile-like names (the property speaks of .sm/.ssc files)",
]

# "e\u0301x": a decomposed (non-NFC) name, as found in folders copied from macOS - listed names must be used as they are
# "w\\in": a literal backslash in a name (legal on POSIX and in PyFilesystem; what unpacking a Windows-made archive leaves)
SIM_STEMS = ["a", "b", "Song", "x y", "e\u0301x", "w\\in"]
SM_EXTS = [".sm", ".SM", ".Sm", ".sM"]
SSC_EXTS = [".ssc", ".SSC", ".SsC", ".sSc"]
NEAR = ["x.sm.old", "x.ssca", "sm", "ssc", "x.smx", "x.ssc.bak", "xsm", "x.sm_", "SM", "x.ssc~", "x.s", "x.sc", "a.sm.txt", "ssc.x",
        # only case FOLDING (not lower-casing) turns these into .ssc / .sm: they are not simfile names
        "x.\u00dfc", "x.\u017fm", "x.\u017f\u017fc",
        # a line feed after the extension: the name does not END in .sm / .ssc
        "x.sm\n", "y.ssc\n"]
OTHER = ["banner.png", "BG.JPG", "x.ogg", "song.MP3", "notes.txt", "README", "a.lrc"]
# directory names include ones that look like loose files (a song folder may be called "Butterfly.ogg"); names ending in
# .sm / .ssc are not used for directories: the quantifier builds trees from *file* names with simfile extensions (a
# directory called "Remix.SM" is taken for an SM file by SimfileDirectory - observed, outside the stated domain)
DIRNAMES = ["Song A", "songB", "empty", "nested", "z", "Extras", "sub dir", "B", "Butterfly.ogg", "cover.png", "docs.txt", "old.sm.bak", "Cafe\u0301 Mix", "Pack\\Song"]
# "straycp": stray text AND bytes that only a fallback code page decodes (options must survive the fallback attempts)
BODY_KINDS = ["plain", "plain", "plain", "stray", "stray", "u8", "u8", "cp", "straycp", "strayu8"]
DEFAULT_ENCODINGS = ["utf-8", "cp1252", "cp932", "cp949"]


def need(cond, msg):
    if not cond:
        raise Violation(msg)


def ext_of(name):
    """own transcription of 'extension matched in any letter case'"""
    low = name.lower()
    if low.endswith(".ssc"):
        return ".ssc"
    if low.endswith(".sm"):
        return ".sm"
    return None


# --------------------------------------------------------------------------------------
# file bodies


def title_for(relpath, kind):
    t = relpath.replace("/", "|").replace("\\", "!").encode("ascii", "replace").decode()  # names may hold characters a code page lacks
    if kind in ("u8", "cp", "straycp", "strayu8"):
        return "café " + t
    return t


def body_bytes(relpath, kind, ext):
    title = title_for(relpath, kind)
    head = "#VERSION:0.83;\n" if ext == ".ssc" else ""
    if kind in ("stray", "straycp", "strayu8"):
        text = f"{head}#TITLE:{title};\nstray text\n#ARTIST:someone;\n"
    else:
        text = f"{head}#TITLE:{title};\n#ARTIST:someone;\n"
    return text.encode("cp1252" if kind in ("cp", "straycp") else "utf-8")


def outcome(data, kind, strict, encoding):
    """-> ("title", str) | ("exc", "UnicodeDecodeError" | "MSDParserError"), from the bytes and the options alone"""
    text = None
    for enc in [encoding] if encoding else DEFAULT_ENCODINGS:
        try:
            text = data.decode(enc)
            break
        except UnicodeDecodeError:
            continue
    if text is None:
        return ("exc", "UnicodeDecodeError")
    if kind in ("stray", "straycp", "strayu8") and strict:
        return ("exc", "MSDParserError")
    line = [l for l in text.split("\n") if l.startswith("#TITLE:")][0]
    return ("title", line[len("#TITLE:"):-1])


# --------------------------------------------------------------------------------------
# filesystems


class Native:
    flavour = "native"

    def __init__(self):
        self.base = tempfile.mkdtemp(prefix="vf-")
        self.root = self.base
        self.kw = {}

    join = staticmethod(os.path.join)
    norm = staticmethod(os.path.normpath)

    def basename(self, p):
        return os.path.split(p)[1]

    def mkdir(self, p):
        os.makedirs(p, exist_ok=True)

    def write(self, p, data):
        with open(p, "wb") as f:
            f.write(data)

    def listdir(self, p):
        return os.listdir(p)

    def isdir(self, p):
        return os.path.isdir(p)

    def close(self):
        shutil.rmtree(self.base, ignore_errors=True)


class Mem:
    flavour = "mem"

    def __init__(self):
        import fs.path
        from fs.memoryfs import MemoryFS

        self.fs = MemoryFS()
        self.root = "/root"
        self.fs.makedir("/root")
        self.kw = {"filesystem": self.fs}
        self._p = fs.path

    def join(self, *a):
        return self._p.join(*a)

    def norm(self, p):
        return self._p.normpath(p)

    def basename(self, p):
        return self._p.split(p)[1]

    def mkdir(self, p):
        self.fs.makedirs(p, recreate=True)

    def write(self, p, data):
        self.fs.writebytes(p, data)

    def listdir(self, p):
        return self.fs.listdir(p)

    def isdir(self, p):
        return self.fs.isdir(p)

    def close(self):
        self.fs.close()


class OsFs(Mem):
    """fs.osfs.OSFS over a temp dir.  Not generated: OSFS opens files by a *bytes* system path, so `file.name` is not a
    str, suffix detection in simfile.load() is skipped and the peeked stream is never rewound - the defect of C03
    (finding 3).  Kept so that a probe case can show that interplay."""

    flavour = "osfs"

    def __init__(self):
        import fs.path
        from fs.osfs import OSFS

        self.base = tempfile.mkdtemp(prefix="vf-")
        self.fs = OSFS(self.base)
        self.root = "/"
        self.kw = {"filesystem": self.fs}
        self._p = fs.path

    def close(self):
        try:
            self.fs.close()
        finally:
            shutil.rmtree(self.base, ignore_errors=True)


FLAVOURS = {"native": Native, "mem": Mem, "osfs": OsFs}


def build(E, path, rel, node, files_out):
    E.mkdir(path)
    # entries are created in the order the case lists them (files and directories interleaved by 'order')
    for name, kind in node["files"]:
        p = E.join(path, name)
        r = rel + "/" + name
        e = ext_of(name)
        if e and kind != "other":
            data = body_bytes(r, kind, e)
        else:
            kind = "other"
            data = b"x"
        E.write(p, data)
        files_out[E.norm(p)] = (kind, data)
    if E.flavour == "native":
        for name in node.get("links") or []:
            # a symbolic link whose target does not exist: neither a file to open nor a directory to descend into
            os.symlink(os.path.join(path, "no such target"), os.path.join(path, name))
    for name, sub in node["dirs"]:
        build(E, E.join(path, name), rel + "/" + name, sub, files_out)


def walk(E, path, node, out, depth=1):
    out.append((path, node))
    node_depth[id(node)] = depth
    for name, sub in node["dirs"]:
        walk(E, E.join(path, name), sub, out, depth + 1)


node_depth = {}


# --------------------------------------------------------------------------------------


def check(case):
    import simfile
    from msdparser import MSDParserError
    from simfile.dir import DuplicateSimfileError, SimfileDirectory, SimfilePack

    DOCUMENTED = (DuplicateSimfileError, FileNotFoundError, MSDParserError, UnicodeDecodeError)

    ign = bool(case["ign"])
    strict = bool(case["strict"])
    encoding = case["encoding"]
    opts = {}
    if case["pass_strict"] or not strict:
        opts["strict"] = strict
    else:
        strict = True  # not passed: the documented default
    if encoding:
        opts["encoding"] = encoding

    E = FLAVOURS[case["fs"]]()
    evals = 0
    labels = set()
    labels.add("fs:" + E.flavour)
    try:
        files = {}
        top = E.join(E.root, "pack")
        build(E, top, "pack", case["tree"], files)
        dirs = []
        node_depth.clear()
        walk(E, top, case["tree"], dirs)

        def attempt(fn):
            try:
                return ("ok", fn())
            except DOCUMENTED as e:
                for cls in DOCUMENTED:
                    if isinstance(e, cls):
                        return ("exc", cls.__name__)
                raise

        def file_outcome(p):
            kind, data = files[E.norm(p)]
            return outcome(data, kind, strict, encoding)

        def model_dir(d, ignore):
            """-> "dup" | (sm_path|None, ssc_path|None), normalised, first listed wins"""
            listing = E.listdir(d)
            sm = [n for n in listing if ext_of(n) == ".sm"]
            ssc = [n for n in listing if ext_of(n) == ".ssc"]
            if (len(sm) > 1 or len(ssc) > 1) and not ignore:
                return "dup"
            return (E.norm(E.join(d, sm[0])) if sm else None, E.norm(E.join(d, ssc[0])) if ssc else None)

        def normed(p):
            return None if p is None else E.norm(p)

        def judge_open(what, res, best):
            """res = attempt(...) for opening the simfile whose path should be `best` (None: no simfile)"""
            if best is None:
                need(res == ("exc", "FileNotFoundError"), f"{what}: directory without simfile, expected FileNotFoundError, got {show(res)}")
                return
            exp = file_outcome(best)
            if exp[0] == "exc":
                need(res == exp, f"{what}: expected {exp[1]} for {best!r} with options {opts!r}, got {show(res)}")
            else:
                need(res[0] == "ok", f"{what}: expected the simfile titled {exp[1]!r} ({best!r}, options {opts!r}), got {show(res)}")
                got = res[1]
                need(got.title == exp[1], f"{what}: opened simfile has TITLE {got.title!r}, expected {exp[1]!r} ({best!r}, options {opts!r})")

        def show(res):
            if res[0] == "exc":
                return res[1]
            v = res[1]
            return f"a result ({type(v).__name__}{' titled ' + repr(v.title) if hasattr(v, 'title') else ''})"

        # ---------------- every directory as a SimfileDirectory, and through opendir
        for d, node in dirs:
            exp = model_dir(d, ign)
            res = attempt(lambda: SimfileDirectory(d, ignore_duplicate=ign, **E.kw))
            evals += 1
            if exp == "dup":
                need(res == ("exc", "DuplicateSimfileError"), f"SimfileDirectory({d!r}, ignore_duplicate={ign}): listing {E.listdir(d)!r} has two files of one kind, expected DuplicateSimfileError, got {show(res)}")
                labels.add("duplicate-raises")
            else:
                need(res[0] == "ok", f"SimfileDirectory({d!r}, ignore_duplicate={ign}): unexpected {show(res)}; listing {E.listdir(d)!r}")
                sd = res[1]
                got = (normed(sd.sm_path), normed(sd.ssc_path))
                need(got == exp, f"SimfileDirectory({d!r}, ignore_duplicate={ign}): (sm_path, ssc_path) = {got!r}, expected {exp!r}; listing {E.listdir(d)!r}")
                best = exp[1] or exp[0]
                need(normed(sd.simfile_path) == best, f"SimfileDirectory({d!r}).simfile_path = {sd.simfile_path!r}, expected {best!r}")
                judge_open(f"SimfileDirectory({d!r}, ignore_duplicate={ign}).open(**{opts!r})", attempt(lambda: sd.open(**opts)), best)
                evals += 3
                if exp[0] and exp[1]:
                    labels.add("both-kinds")
                if best is None:
                    labels.add("dir-without-simfile")
                if ign and model_dir(d, False) == "dup":
                    labels.add("duplicate-ignored")
            # opendir: same as the object with default duplicate handling
            exp0 = model_dir(d, False)
            res = attempt(lambda: simfile.opendir(d, **E.kw, **opts))
            evals += 1
            if exp0 == "dup":
                need(res == ("exc", "DuplicateSimfileError"), f"opendir({d!r}): expected DuplicateSimfileError, got {show(res)}; listing {E.listdir(d)!r}")
            else:
                best = exp0[1] or exp0[0]
                if res[0] == "ok":
                    need(isinstance(res[1], tuple) and len(res[1]) == 2, f"opendir({d!r}) returned {res[1]!r}, not a (simfile, path) pair")
                    sf, p = res[1]
                    need(best is not None and normed(p) == best, f"opendir({d!r}, **{opts!r}) path {p!r}, expected {best!r}; listing {E.listdir(d)!r}")
                    judge_open(f"opendir({d!r}, **{opts!r})", ("ok", sf), best)
                else:
                    judge_open(f"opendir({d!r}, **{opts!r})", res, best)

        # ---------------- every directory as a pack, and through openpack
        kw_observable = False
        for P, node in dirs:
            listing = E.listdir(P)
            members = set()
            for n in listing:
                q = E.join(P, n)
                if E.isdir(q) and any(ext_of(m) for m in E.listdir(q)):
                    members.add(E.norm(q))
            res = attempt(lambda: SimfilePack(P, ignore_duplicate=ign, **E.kw))
            evals += 1
            need(res[0] == "ok", f"SimfilePack({P!r}): unexpected {show(res)}")
            sp = res[1]
            got_paths = [E.norm(p) for p in sp.simfile_dir_paths]
            need(
                set(got_paths) == members and len(got_paths) == len(members),
                f"SimfilePack({P!r}).simfile_dir_paths = {sorted(got_paths)!r}, expected exactly {sorted(members)!r}; listing {listing!r}",
            )
            need(sp.name == E.basename(P), f"SimfilePack({P!r}).name = {sp.name!r}, expected {E.basename(P)!r}")
            evals += 2
            labels.add("pack-members:" + ("0" if not members else "1" if len(members) == 1 else "2+"))

            # simfile_dirs()
            seen = set()
            it = iter(sp.simfile_dirs())
            while True:
                res = attempt(lambda: next(it, None))
                evals += 1
                if res[0] == "exc":
                    rest_dup = [m for m in members - seen if model_dir(m, ign) == "dup"]
                    need(res[1] == "DuplicateSimfileError" and rest_dup, f"SimfilePack({P!r}, ignore_duplicate={ign}).simfile_dirs(): unexpected {res[1]}")
                    break
                sd = res[1]
                if sd is None:
                    need(seen == members, f"SimfilePack({P!r}).simfile_dirs() ended after {sorted(seen)!r}, expected {sorted(members)!r}")
                    break
                m = E.norm(sd.simfile_dir)
                need(m in members and m not in seen, f"SimfilePack({P!r}).simfile_dirs() yielded {sd.simfile_dir!r}; expected members {sorted(members)!r}, already seen {sorted(seen)!r}")
                seen.add(m)
                exp = model_dir(m, ign)
                need(exp != "dup", f"SimfilePack({P!r}, ignore_duplicate={ign}).simfile_dirs() yielded {m!r} which holds duplicates")
                got = (normed(sd.sm_path), normed(sd.ssc_path))
                need(got == exp, f"SimfilePack({P!r}, ignore_duplicate={ign}).simfile_dirs(): {m!r} has (sm_path, ssc_path) {got!r}, expected {exp!r}")

            # simfiles(**opts) and openpack(**opts): same walk, different yield shapes
            def drain(what, it, ignore, pairs):
                nonlocal evals
                seen = set()
                while True:
                    res = attempt(lambda: next(it, None))
                    evals += 1
                    rest = members - seen
                    if res[0] == "exc":
                        allowed = set()
                        for m in rest:
                            e = model_dir(m, ignore)
                            if e == "dup":
                                allowed.add("DuplicateSimfileError")
                            else:
                                o = file_outcome(e[1] or e[0])
                                if o[0] == "exc":
                                    allowed.add(o[1])
                        need(
                            res[1] in allowed,
                            f"{what}: raised {res[1]} but no remaining simfile directory explains it with options {opts!r} "
                            f"(remaining {sorted(rest)!r}, explainable {sorted(allowed)!r})",
                        )
                        return
                    item = res[1]
                    if item is None:
                        need(not rest, f"{what}: ended without yielding the simfiles of {sorted(rest)!r}")
                        return
                    if pairs:
                        need(isinstance(item, tuple) and len(item) == 2, f"{what}: yielded {item!r}, not a (simfile, path) pair")
                        sf, p = item
                        hit = [m for m in rest if model_dir(m, ignore) != "dup" and (model_dir(m, ignore)[1] or model_dir(m, ignore)[0]) == normed(p)]
                        need(len(hit) == 1, f"{what}: yielded path {p!r}, expected the preferred simfile of one of {sorted(rest)!r}")
                        m = hit[0]
                    else:
                        sf = item
                        hit = []
                        for m in rest:
                            e = model_dir(m, ignore)
                            if e != "dup":
                                o = file_outcome(e[1] or e[0])
                                if o[0] == "title" and o[1] == sf.title:
                                    hit.append(m)
                        need(len(hit) == 1, f"{what}: yielded a simfile titled {sf.title!r} which is not the preferred simfile of any of {sorted(rest)!r} under options {opts!r}")
                        m = hit[0]
                    e = model_dir(m, ignore)
                    judge_open(what, ("ok", sf), e[1] or e[0])
                    seen.add(m)

            drain(f"SimfilePack({P!r}, ignore_duplicate={ign}).simfiles(**{opts!r})", iter(sp.simfiles(**opts)), ign, False)
            for m in members:
                e = model_dir(m, False)
                if e != "dup":
                    kind, data = files[e[1] or e[0]]
                    if outcome(data, kind, True, None) != outcome(data, kind, strict, encoding):
                        kw_observable = True
            # openpack last: on the unchanged tree this is where the planned-fix defect (kwargs dropped) shows
            res = attempt(lambda: simfile.openpack(P, **E.kw, **opts))
            need(res[0] == "ok", f"openpack({P!r}): unexpected {show(res)} before iteration")
            drain(f"openpack({P!r}, **{opts!r})", iter(res[1]), False, True)

        # ---------------- classification
        names = [n for _, node in dirs for n, _ in node["files"]]
        sims = [n for n in names if ext_of(n)]
        if any(n in NEAR for n in names):
            labels.add("near-miss")
        if any(n[n.rfind("."):] not in (".sm", ".ssc") for n in sims):
            labels.add("mixed-case-ext")
        depth3 = [node for _, node in dirs if node_depth.get(id(node)) == 3]
        if any(ext_of(n) for node in depth3 for n, _ in node["files"]):
            labels.add("simfile-in-nested-dir")
        if any(ext_of(n) for n, _ in case["tree"]["files"]):
            labels.add("loose-simfile-in-pack")
        if any(not node["files"] and not node["dirs"] for _, node in dirs):
            labels.add("empty-dir")
        kinds = {k for _, node in dirs for n, k in node["files"] if ext_of(n)}
        for k in kinds:
            labels.add("body:" + k)
        if not strict:
            labels.add("opt:strict=False")
        if encoding:
            labels.add("opt:encoding=" + encoding)
        if kw_observable:
            labels.add("openpack-kwargs-observable")
        decisive = labels & {
            "near-miss", "mixed-case-ext", "simfile-in-nested-dir", "both-kinds", "duplicate-raises", "duplicate-ignored",
            "dir-without-simfile", "openpack-kwargs-observable",
        }
        return Verdict(nontrivial=bool(sims) and bool(decisive), evals=evals, labels=sorted(labels))
    except Violation as e:
        # keep messages reproducible: the scratch directory's random name is not part of the finding
        base = getattr(E, "base", None)
        raise Violation(str(e).replace(base, "<tmp>") if base else str(e)) from None
    finally:
        E.close()


# --------------------------------------------------------------------------------------
# generator


@st.composite
def _files(draw, max_other):
    out = []
    used = set()
    n_sm = draw(st.sampled_from([0, 0, 1, 1, 1, 2]))
    n_ssc = draw(st.sampled_from([0, 0, 1, 1, 1, 2]))
    for exts, n in ((SM_EXTS, n_sm), (SSC_EXTS, n_ssc)):
        for _ in range(n):
            name = draw(st.sampled_from(SIM_STEMS)) + draw(st.sampled_from(exts))
            if name in used:
                name = "c" + name
            if name in used:
                continue
            used.add(name)
            out.append([name, draw(st.sampled_from(BODY_KINDS))])
    for name in draw(st.lists(st.sampled_from(NEAR + NEAR + OTHER), max_size=max_other, unique=True)):
        if name not in used:
            used.add(name)
            out.append([name, "other"])
    # creation order matters for "first listed" on MemoryFS: shuffle by a drawn permutation
    return draw(st.permutations(out)) if len(out) > 1 else out


@st.composite
def _node(draw, depth):
    files = draw(_files(3 if depth < 3 else 2))
    dirs = []
    if depth < 3:
        names = draw(st.lists(st.sampled_from(DIRNAMES), max_size=3 if depth == 1 else 2, unique=True))
        for n in names:
            if draw(st.integers(0, 7)) == 0:
                dirs.append([n, {"files": [], "dirs": []}])
            else:
                dirs.append([n, draw(_node(depth + 1))])
    links = ["broken link"] if draw(st.integers(0, 7)) == 0 else []
    return {"files": files, "dirs": dirs, "links": links}


@st.composite
def s_case(draw):
    tree = draw(_node(1))
    o = draw(st.integers(0, 2**24 - 1))  # option bits from one wide draw (less bias towards the first alternative)
    return {
        "tree": tree,
        "fs": ["native", "mem"][o & 1],
        "ign": bool((o >> 1) & 1),
        "strict": bool((o >> 2) & 1),
        "pass_strict": bool((o >> 3) & 1),
        "encoding": [None, "utf-8", "cp1252", None][(o >> 4) & 3],
    }


def _fixed():
    def f(*names):
        return [[n, "plain"] if ext_of(n) else [n, "other"] for n in names]

    def leaf(*names):
        return {"files": f(*names), "dirs": []}

    trees = [
        # only near misses anywhere: nothing may be found
        {"files": f(*NEAR), "dirs": [["Song A", leaf(*NEAR)], ["z", {"files": [], "dirs": [["nested", leaf(*NEAR)]]}]]},
        # simfiles only in nested directories and loose in the pack: pack has no members
        {"files": f("a.sm", "b.SSC"), "dirs": [["Song A", {"files": f("notes.txt"), "dirs": [["nested", leaf("a.sm")]]}], ["empty", leaf()]]},
        # both kinds, mixed case, duplicates of each kind
        {"files": [], "dirs": [["Song A", leaf("a.SM", "a.sm", "b.SsC")], ["songB", leaf("a.Sm", "x y.sSc", "Song.ssc")], ["z", leaf("Song.sM")]]},
    ]
    cases = []
    for t in trees:
        for fs_ in ("native", "mem"):
            for ign in (False, True):
                cases.append({"tree": t, "fs": fs_, "ign": ign, "strict": True, "pass_strict": False, "encoding": None})
    return cases


def parts(tier):
    q = tier == "quick"
    return [
        {"name": "corner-trees", "kind": "fixed", "cases": _fixed},
        {"name": "trees", "kind": "hypothesis", "strategy": s_case, "examples": 6000 if q else 16 * 6000},
    ]
