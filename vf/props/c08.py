"""
C08 - Notes written to note data read back identically, in canonical form.

Oracle: round trip through the decoder (validated separately by C07 against the grid model) plus a structural
model of the canonical text (sections, measures, rows per measure) computed from the stream itself.
"""
import re
from fractions import Fraction as F
from math import gcd

from hypothesis import strategies as st

from .. import gen_notes as N
from ..core import Verdict, Violation

ID = "C08"
LEVEL = "exploration"
RULE = (
    "Hypothesis note streams sorted by (player, beat, column) with unique positions: per measure a base denominator D "
    "(1..64 or up to 1000) and note offsets i/D, so beats have arbitrary mixed denominators on and off the 1/48 grid "
    "while the measure's row count stays <= 4000; up to 12 measures with gaps; 1..16 columns; players any subset of "
    "{0,1,2}; every note type; keysound indices; the empty stream; plus the notes decoded from C07-style decorated "
    "texts and from every corpus chart (decode -> encode -> decode -> encode). Non-trivial = mixed denominators inside "
    "one measure, a skipped measure or player, keysounds, or the empty stream; distinct = distinct case JSON"
)
RULE += " " + 'Added after the seeding rounds: a crowded keysounded row longer than 64 characters (also as very first row); before every checked call the same beats are built from floats and one call with an out-of-range column is made and its outcome ignored (process history that must not matter).'
RULE += " " + "Round 7: another NoteData with another column count is built between building the checked object and using it; in multi-player streams the next player's first note may repeat the previous player's last one."
ASSUMPTIONS = ["the decoder is validated by C07", "structural reading of the canonical text: '&' and ',' lines separate sections and measures"]

CELL = re.compile(r"([^\[\]])(?:\[(\d+)\])?")


def need(c, msg):
    if not c:
        raise Violation(msg)


def lcm(a, b):
    return a * b // gcd(a, b)


def structure(text):
    """[[rows_of_measure, ...] per section]; rows = list of cell lists"""
    sections = [[[]]]
    for line in text.split("\n"):
        s = line.strip(" \t\r")
        if not s:
            continue
        if s == "&":
            sections.append([[]])
        elif s == ",":
            sections[-1].append([])
        else:
            sections[-1][-1].append(CELL.findall(s))
    return sections


def fields(n):
    return (n.player, F(n.beat), n.column, n.note_type.value, n.keysound_index)


def build_notes(spec):
    from simfile.notes import Note, NoteType
    from simfile.timing import Beat

    return [
        Note(beat=Beat(bn, bd), column=c, note_type=NoteType(t), player=p, keysound_index=ks)
        for p, (bn, bd), c, t, ks in spec
    ]


def check_stream(notes, cols, what):
    """notes: real Note objects, position sorted"""
    from simfile.notes import NoteData

    from simfile.notes import Note, NoteType
    from simfile.timing import Beat

    exp = [fields(n) for n in notes]
    # process history that must not matter: the same beats built from floats elsewhere (a float snaps to the tick grid,
    # the exact beat does not), and an earlier call that was rejected half-way through a row (column out of range)
    for n in notes[:8]:
        Beat(float(n.beat))
        Beat(float(n.beat % 4))
    if notes:
        bad = [Note(beat=notes[0].beat, column=0, note_type=NoteType.HOLD_HEAD), Note(beat=notes[0].beat, column=cols, note_type=NoteType.TAP)]
        try:
            NoteData.from_notes(bad, cols)
        except Exception:  # noqa - an out-of-range column is outside the domain: whatever happens, later calls are unaffected
            pass
    nd = NoteData.from_notes(iter(notes), cols)
    # another note data object with another column count, built after this one and before this one is used
    other_cols = cols % 16 + 1
    NoteData.from_notes([Note(beat=Beat(1), column=other_cols - 1, note_type=NoteType.TAP, keysound_index=3)], other_cols)
    next(iter(nd), None)  # an abandoned iteration must not disturb later ones
    text = str(nd)
    short = text if len(text) < 300 else text[:300] + "..."
    got = [fields(n) for n in nd]
    need(got == exp, f"{what}: from_notes then iterate gives {got[:6]}..., expected {exp[:6]}... ({len(got)} vs {len(exp)} notes); text {short!r}")
    need(nd.columns == cols, f"{what}: columns = {nd.columns}, requested {cols}")
    ra, rb = N.interleaved_reads(nd)
    need([fields(n) for n in ra] == exp and [fields(n) for n in rb] == exp, f"{what}: two interleaved iterations of the result do not both read back the notes; text {short!r}")

    # canonical structure
    sec = structure(text)
    players = sorted({p for p, *_ in exp})
    nsec = (max(players) + 1) if players else 1
    need(len(sec) == nsec, f"{what}: {len(sec)} player sections, expected {nsec}; text {short!r}")
    for p in range(nsec):
        mine = [e for e in exp if e[0] == p]
        nmeas = (max(int(b // 4) for _, b, *_ in mine) + 1) if mine else 1
        need(len(sec[p]) == nmeas, f"{what}: player {p} has {len(sec[p])} measures, expected {nmeas}; text {short!r}")
        for m in range(nmeas):
            q = 1
            for _, b, *_ in mine:
                if int(b // 4) == m:
                    q = lcm(q, b.denominator)
            rows = sec[p][m]
            need(len(rows) == 4 * q, f"{what}: player {p} measure {m} has {len(rows)} rows, expected {4 * q}; text {short!r}")
            for row in rows:
                need(len(row) == cols, f"{what}: a row of player {p} measure {m} has {len(row)} cells, expected {cols}")
            nz = sum(1 for row in rows for ch, _ in row if ch != "0")
            exp_nz = sum(1 for _, b, *_ in mine if int(b // 4) == m)
            need(nz == exp_nz, f"{what}: player {p} measure {m} holds {nz} notes, expected {exp_nz}")
    # rebuilding from its own notes reproduces the text
    again = NoteData.from_notes(list(nd), cols)
    need(str(again) == text, f"{what}: rebuilding note data from its own notes changes the text")
    return nd, text


def check(case):
    from simfile.notes import NoteData

    kind = case["kind"]
    labels = []
    if kind == "stream":
        spec = case["notes"]
        cols = case["cols"]
        notes = build_notes(spec)
        if not notes:
            try:
                nd = NoteData.from_notes(iter([]), cols)
            except Exception as e:  # noqa
                raise Violation(f"from_notes(empty stream, {cols}) raised {type(e).__name__}: {e}")
            sec = structure(str(nd))
            need(len(sec) == 1 and len(sec[0]) == 1 and len(sec[0][0]) == 4, f"empty stream should give one blank 4-row measure, got {str(nd)!r}")
            need(all(ch == "0" for row in sec[0][0] for ch, _ in row) and all(len(r) == cols for r in sec[0][0]), f"empty stream: {str(nd)!r}")
            need(list(nd) == [] and nd.columns == cols, "empty stream: notes/columns")
            return Verdict(nontrivial=True, labels=["empty-stream"], key={"empty": cols})
        check_stream(notes, cols, "stream")
        bym = {}
        for p, (bn, bd), c, t, ks in spec:
            b = F(bn, bd)
            bym.setdefault((p, int(b // 4)), set()).add(b.denominator)
        if any(len(v) > 1 for v in bym.values()):
            labels.append("mixed-denominators")
        if any(d not in (1, 2, 3, 4, 6, 8, 12, 16, 24, 48) for v in bym.values() for d in v):
            labels.append("off-tick-grid")
        players = sorted({p for p, *_ in spec})
        if players != list(range(len(players))):
            labels.append("skipped-player")
        for p in players:
            ms = sorted(m for (pp, m) in bym if pp == p)
            if ms != list(range(len(ms))):
                labels.append("skipped-measure")
        if any(ks is not None for *_, ks in spec):
            labels.append("keysounds")
        rowlen = {}
        for p, (bn, bd), c, t, ks in spec:
            rowlen[(p, bn, bd)] = rowlen.get((p, bn, bd), 0) + (len(str(ks)) + 2 if ks is not None else 0)
        if any(v + cols > 64 for v in rowlen.values()):
            labels.append("row-text>64")
        return Verdict(nontrivial=bool(labels), labels=sorted(set(labels)), evals=len(notes) + 3)

    if kind in ("grid", "corpus"):
        if kind == "grid":
            text = N.render(case["grid"])
            cols = case["grid"]["cols"]
        else:
            import simfile
            from .. import gen_timing as G

            sf = simfile.open(G.corpus_path(case["path"]))
            text = sf.charts[case["chart"]].notes
            cols = NoteData(text).columns
        src = NoteData(text)
        notes = list(src)
        if not notes:
            # decoding a chart without notes and re-encoding: covered by the empty-stream case
            nd1 = NoteData.from_notes(notes, cols)
            need(list(nd1) == [], "empty chart re-encoded is not empty")
            return Verdict(nontrivial=False, labels=["empty-chart"])
        nd1, t1 = check_stream(notes, cols, "decoded chart")
        # the NoteData object itself is a stream of notes too: same canonical text, however its own text is laid out
        direct = NoteData.from_notes(src, cols)
        need(str(direct) == t1, f"from_notes(<NoteData object>) gives {str(direct)[:200]!r}, from_notes(list of its notes) gives {t1[:200]!r}")
        nd2 = NoteData.from_notes(list(NoteData(t1)), cols)
        need(str(nd2) == t1, "decode -> encode -> decode -> encode is not stable after the first pass")
        need([fields(n) for n in NoteData(str(nd2))] == [fields(n) for n in notes], "notes changed over two encode passes")
        return Verdict(nontrivial=True, labels=[kind + "-reencode"], evals=len(notes) + 5)
    raise Violation("unknown case kind")


# ---------------------------------------------------------------------------------------------


@st.composite
def s_stream(draw):
    cols = draw(st.one_of(st.integers(1, 16), st.sampled_from([4, 4, 8])))
    players = draw(st.sampled_from([[0], [0], [0], [1], [2], [0, 1], [0, 2], [1, 2], [0, 1, 2], []]))
    spec = []
    for p in players:
        nmeas = draw(st.integers(1, 4))
        measures = sorted(draw(st.lists(st.integers(0, 11), min_size=nmeas, max_size=nmeas, unique=True)))
        for m in measures:
            D = draw(st.one_of(st.sampled_from([1, 2, 3, 4, 6, 8, 12, 16, 48]), st.integers(1, 64), st.integers(1, 1000),
                               st.sampled_from([96, 192, 384, 576, 768, 960, 240, 480, 720, 360, 840, 1000])))
            k = draw(st.integers(1, 6))
            if draw(st.booleans()):
                cells = draw(st.lists(st.tuples(st.integers(0, 4 * D - 1), st.integers(0, cols - 1)), min_size=1, max_size=k, unique=True))
            else:
                # divisor-driven: pick each note's denominator among the divisors of D first (so small and large
                # denominators, dividing and not dividing 192, meet in one measure), then a numerator
                divs = [d for d in range(1, D + 1) if D % d == 0]
                cells = set()
                for _ in range(k):
                    d = draw(st.sampled_from(divs))
                    num = draw(st.integers(0, 4 * d - 1))
                    cells.add((num * (D // d), draw(st.integers(0, cols - 1))))
                cells = list(cells)
            placed = []
            for i, c in sorted(cells):
                b = F(4 * m) + F(i, D)
                t, ks = draw(st.sampled_from(N.NOTE_CHARS)), draw(N.keysound)
                spec.append([p, [b.numerator, b.denominator], c, t, ks])
                placed.append((i, c, t, ks))
            if m + 1 not in measures and m + 1 <= 11 and draw(st.integers(0, 5)) == 0:
                # an "echo": the next measure holds the same note strings in the same columns on the same row numbers, at
                # a finer quantization (numerators kept, denominator multiplied) - or the next player's first measure does
                mult = draw(st.sampled_from([2, 3, 4]))
                for i, c, t, ks in placed:
                    b = F(4 * (m + 1)) + F(i, D * mult)
                    if b < 4 * (m + 2):
                        spec.append([p, [b.numerator, b.denominator], c, t, ks])
    if len(players) > 1 and spec and draw(st.integers(0, 3)) == 0:
        # the next player's first note repeats the previous player's last one (beat, column, type) - two notes, not one
        for p, q in zip(players, players[1:]):
            mine = [n for n in spec if n[0] == p]
            if mine:
                last = max(mine, key=lambda n: (F(n[1][0], n[1][1]), n[2]))
                spec = [n for n in spec if not (n[0] == q and (F(n[1][0], n[1][1]), n[2]) <= (F(last[1][0], last[1][1]), last[2]))]
                spec.append([q, list(last[1]), last[2], last[3], draw(st.sampled_from([last[4], None]))])
    if players and draw(st.integers(0, 7)) == 0:
        # a crowded row: most columns of one row carry a keysounded note (multi-digit indices), so the row's text is far
        # longer than its column count - on the very first row of the text or somewhere later
        p = players[0] if draw(st.booleans()) else draw(st.sampled_from(players))
        beat = F(0) if draw(st.booleans()) else F(draw(st.integers(0, 47)), draw(st.sampled_from([1, 2, 3, 4])))
        cols = max(cols, draw(st.sampled_from([8, 10, 16, 16])))
        chord = draw(st.lists(st.integers(0, cols - 1), min_size=cols - 3, max_size=cols, unique=True))
        spec = [n for n in spec if not (n[0] == p and F(n[1][0], n[1][1]) == beat and n[2] in chord)]
        for c in chord:
            spec.append([p, [beat.numerator, beat.denominator], c, draw(st.sampled_from(N.NOTE_CHARS)), draw(st.sampled_from([10, 99, 100, 255, 1000, 9999, 12345]))])
    spec.sort(key=lambda n: (n[0], F(n[1][0], n[1][1]), n[2]))
    return {"kind": "stream", "cols": cols, "notes": spec}


def s_grid():
    return st.builds(lambda g: {"kind": "grid", "grid": g}, N.grids(max_measures=4))


def fixed_cases():
    out = [{"kind": "stream", "cols": c, "notes": []} for c in (1, 4, 8, 16)]
    out += [{"kind": "corpus", "path": rel, "chart": i} for rel, i in N.corpus_charts()]
    return out


def parts(tier):
    q = tier == "quick"
    return [
        {"name": "fixed", "kind": "fixed", "cases": fixed_cases},
        {"name": "streams", "kind": "hypothesis", "strategy": s_stream, "examples": 3000 if q else 16 * 15000},
        {"name": "reencode", "kind": "hypothesis", "strategy": s_grid, "examples": 1000 if q else 16 * 5000},
    ]
