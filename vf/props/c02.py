"""
C02 - SSC simfile: serialize then parse gives back the same simfile (charts modulo "note data last").
"""
import io
import re

from .. import gen_simfile as GS
from .. import msdgap
from .. import simmodel as M
from ..core import Verdict, Violation
from .c01 import machine_factory, wrap_unexpected

ID = "C02"
FMT = "ssc"
LEVEL = "exploration"
RULE = (
    "edit histories applied to an SSC simfile and to a dictionary/list model side by side: base = blank(), an empty "
    "simfile or an SSC corpus file; operations as for C01 plus chart-level set/delete by key and by attribute (the "
    "notes attribute acting on whichever of NOTES/NOTES2 is present); charts built from SSCChart.blank() or empty, keys "
    "in any order, exactly one of NOTES/NOTES2 at any position; values include None, '', one-character strings and, "
    "on purpose, the very same string object / an equal string as the note data under other keys of the chart. "
    "Generated as direct constructions, as Hypothesis op lists and by a RuleBasedStateMachine (round trip after every "
    "rule). msdparser's escaping gap excluded by construction. Non-trivial = a chart in which another value equals the "
    "note data, or NOTES2 is the note key, or the note item is not last, or a metacharacter/None value, or >= 3 edits; "
    "distinct = distinct history JSON"
)
RULE += " " + "Added after the seeding rounds: a complete grid of small boundary constructions (an escaped-on-save token 0..3 characters before offset 256..8192 of the value or of the whole text), key/value pairs that coincide when glued or printed (a colon moved between key and value, None / 'None'), U+FEFF inside keys and values."
RULE += " " + "Round 6: the boundary grid also uses round decimal sizes (500, 1000, 2000, 4000, 10000); for the 'text' alignment the long value is the VERSION value itself (the first SSC parameter)."
RULE += " " + 'Round 7: values with a blank-only line; a simfile-level key spelled NOTES / NOTES2 makes the harness report a non-chart entry of the chart list as a violation.'
ASSUMPTIONS = [
    "msdparser.parse_msd is the trusted tokenizer",
    "values inside msdparser's escaping gap are outside the domain (known findings)",
    "every chart holds exactly one of NOTES/NOTES2, as the quantifier states",
]
META = re.compile(r"[:;\\\r\n]|//")


def need(c, msg):
    if not c:
        raise Violation(msg)


def short(t, n=300):
    return repr(t if len(t) <= n else t[:n] + "...")


def notes_last(ci):
    nk = msdgap.ssc_notes_key(ci)
    return [[k, v] for k, v in ci if k != nk] + [[nk, dict((k, v) for k, v in ci)[nk]]]


def expect_components(p, k, v, where):
    need(p.key == k, f"{where}: parameter key {p.key!r}, expected {k!r}")
    if v is None:
        need(len(p.components) == 1, f"{where}: key-only property {k!r} written with components {p.components}")
    elif k in msdgap.MULTI:
        need(list(p.components[1:]) == v.split(":"), f"{where}: {k} value {v!r} written as {p.components[1:]}, expected unescaped colon-delimited components")
    else:
        need(list(p.components[1:]) == [v], f"{where}: {k} = {v!r} written as {p.components[1:]}")


def roundtrip(interp, allow_gap=False):
    import simfile
    from msdparser import MSDParserError, parse_msd
    from simfile.ssc import SSCChart, SSCSimfile

    items, charts = interp.items, interp.charts
    if msdgap.in_gap(msdgap.emission_ssc(items, charts)) and not allow_gap:
        return None
    s = interp.obj
    o_items, o_charts = M.observe(s, "ssc")
    need(o_items == items, f"the simfile's items {o_items[:6]} differ from the edit history's {items[:6]}")
    need(o_charts == charts, f"the simfile's charts differ from the edit history's: {o_charts[:2]} vs {charts[:2]}")
    try:
        t = str(s)
    except Exception as e:  # noqa
        raise Violation(f"str(simfile) raised {type(e).__name__}: {e}; items {items[:8]}, charts {charts[:2]}")
    buf = io.StringIO()
    s.serialize(buf)
    need(buf.getvalue() == t, "serialize(file) and str() produce different text")
    try:
        s2 = SSCSimfile(string=t)
    except (MSDParserError, ValueError) as e:
        raise Violation(f"the strict parser rejects the serialized text: {type(e).__name__}: {e}; text {short(t)}")
    i2, c2 = M.observe(s2, "ssc")
    need(i2 == items, f"simfile properties after the round trip {i2[:8]} != before {items[:8]}; text {short(t)}")
    need(len(c2) == len(charts), f"{len(c2)} charts after the round trip, {len(charts)} before; text {short(t)}")
    exp_charts = [notes_last(ci) for ci in charts]
    for n, (got, exp, orig) in enumerate(zip(c2, exp_charts, charts)):
        need(got == exp, f"chart {n} after the round trip {got} != before (note data last) {exp}; original order {orig}; text {short(t)}")
    need(str(s2) == t, f"serializing the round-tripped simfile changes the text; text {short(t)}")
    all_last = all(ci == e for ci, e in zip(charts, exp_charts))
    if all_last:
        need(s2 == s, "charts already end with their note data, but the round-tripped simfile does not compare equal")
    # each chart on its own
    for n, (c, exp) in enumerate(zip(s.charts, exp_charts)):
        ct = str(c)
        c3 = SSCChart.from_str(ct)
        got = [[k, v] for k, v in c3.items()]
        need(got == exp, f"SSCChart.from_str(str(chart {n})) = {got}, expected {exp}; chart text {short(ct)}")
    # token structure
    params = list(parse_msd(string=t))
    pos = 0
    for k, v in items:
        need(pos < len(params), "text ends before all simfile properties are written")
        expect_components(params[pos], k, v, "simfile level")
        pos += 1
    for n, exp in enumerate(exp_charts):
        need(pos < len(params) and params[pos].key == "NOTEDATA", f"chart {n} does not start with a NOTEDATA parameter; text {short(t)}")
        pos += 1
        for k, v in exp:
            need(pos < len(params), f"chart {n}: text ends early")
            expect_components(params[pos], k, v, f"chart {n}")
            pos += 1
    need(pos == len(params), f"{len(params) - pos} unexpected trailing parameters; text {short(t)}")
    if items and items[0][0] == "VERSION":
        s3 = simfile.loads(t)
        need(type(s3) is SSCSimfile, f"loads() detects {type(s3).__name__} although VERSION is the first key")
        need(s3 == s2, "loads() result differs from SSCSimfile(string=...)")

    labels = set(interp.labels)
    for ci in charts:
        nk = msdgap.ssc_notes_key(ci)
        nv = dict((k, v) for k, v in ci)[nk]
        if any(k != nk and v == nv for k, v in ci):
            labels.add("notes-shared")
        if nk == "NOTES2":
            labels.add("notes2")
        if ci[-1][0] != nk:
            labels.add("notes-not-last")
        if nv is None or (nv is not None and len(nv) <= 1):
            labels.add("notes-none-or-short")
        if any(v is None for _, v in ci):
            labels.add("none-value")
        if any(META.search(k) or (v and META.search(v)) for k, v in ci if k != nk):
            labels.add("metachar")
        if any(k in msdgap.MULTI and v and ":" in v for k, v in ci):
            labels.add("chart-multi-value")
    if any(v is None for _, v in items):
        labels.add("none-value")
    if any(META.search(k) or (v and META.search(v)) for k, v in items):
        labels.add("metachar")
    if len(t) > 4096:
        labels.add("text>4096")
    return labels


def check(case):
    interp = M.Interp(FMT, case["base"])
    labels = set()
    checked = 0
    for op in case["ops"] + [["check"]]:
        interp.step(op)
        if op[0] == "check" or case.get("check_each"):
            r = roundtrip(interp, allow_gap=bool(case.get("allow_gap")))
            if r is not None:
                checked += 1
                labels |= r
    if checked == 0:
        return Verdict(excluded="state inside msdparser's escaping gap (leftover of the repair)")
    labels.add("base:" + case["base"].split(":")[0])
    nontrivial = bool(labels & {"none-value", "metachar", "notes-shared", "notes2", "notes-not-last"}) or len(case["ops"]) >= 3
    return Verdict(nontrivial=nontrivial, labels=sorted(labels), evals=checked)


def parts(tier):
    q = tier == "quick"
    return [
        {"name": "constructions", "kind": "hypothesis", "strategy": lambda: GS.constructions(FMT), "examples": 2500 if q else 16 * 6000},
        {"name": "boundary-sized", "kind": "hypothesis", "strategy": lambda: GS.boundary_constructions(FMT), "examples": 192 if q else 16 * 80},
        {"name": "boundary-grid", "kind": "fixed", "cases": lambda: GS.boundary_grid(FMT)},
        {"name": "histories", "kind": "hypothesis", "strategy": lambda: GS.histories(FMT), "examples": 1500 if q else 16 * 3000},
        {"name": "machine", "kind": "machine", "factory": lambda: machine_factory(FMT, wrap_unexpected(roundtrip)), "examples": 300 if q else 16 * 500, "steps": 25 if q else 50},
    ]
