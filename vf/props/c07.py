"""
C07 - Note data text decodes to exactly one correctly placed note per non-zero cell.

Oracle: the note grid model (vf.gen_notes): the chart is data first, the text is rendered from it, the expected
notes are computed from the grid and never by parsing.
"""
import operator
from fractions import Fraction as F

from hypothesis import strategies as st

from .. import gen_notes as N
from ..core import Verdict, Violation

ID = "C07"
LEVEL = "exploration"
RULE = (
    "Hypothesis note grids: 1..16 columns, 1..3 '&'-separated player sections, 1..6 (thorough: up to 40) measures per "
    "player, rows per measure from {1,2,3,4,5,6,8,12,16,24,32,48,64,96,192} or any 1..200, every known note character, "
    "keysound brackets [0..9999] on any non-zero cell, decoration drawn as data (leading/trailing blanks and tabs on "
    "rows, blank lines around measures and separators, LF/CRLF, with/without final line break); ',' and '&' always on "
    "their own line. Plus every corpus chart (there the expected notes come from an independent line-by-line decoder). "
    "Ordering clause: all adjacent pairs, generated index pairs and free-standing pairs sharing a position but differing "
    "in type/keysound under <, <=, >, >=, sorted/min/max. Non-trivial = >= 2 notes and one of: row count not a power of "
    "two, keysound before a later non-zero cell of its row, CRLF, >= 2 players, decoration; distinct = distinct grid JSON"
)
RULE += " " + 'Added after the seeding rounds: keysound indices written with leading zeros ([07] is keysound 7), measures of 250/384/768/1000 rows, free-standing pairs less than a tick apart with the later note in a lower or equal column.'
ASSUMPTIONS = ["grid -> text renderer and expected-note computation in vf/gen_notes.py", "well-formed note data only, as the quantifier states"]

OPS = {"<": operator.lt, "<=": operator.le, ">": operator.gt, ">=": operator.ge}


def need(c, msg):
    if not c:
        raise Violation(msg)


def decode_reference(text):
    """independent decoder for corpus charts: (player, beat, column, char, keysound), and the width"""
    import re

    out = []
    width = None
    for p, sect in enumerate(text.split("&")):
        for m, meas in enumerate(sect.split(",")):
            rows = [ln.strip(" \t\r") for ln in meas.split("\n")]
            rows = [r for r in rows if r]
            R = len(rows)
            for r, row in enumerate(rows):
                cells = re.findall(r"([^\[\]])(?:\[(\d+)\])?", row)
                if width is None:
                    width = len(cells)
                for c, (ch, ks) in enumerate(cells):
                    if ch != "0":
                        out.append((p, F(4 * m * R + 4 * r, R), c, ch, int(ks) if ks else None))
    return out, width


def fields(n):
    return (n.player, F(n.beat), n.column, n.note_type.value, n.keysound_index)


def check(case):
    from simfile.notes import Note, NoteData, NoteType
    from simfile.sm import SMChart
    from simfile.ssc import SSCChart
    from simfile.timing import Beat

    if case.get("kind") == "corpus":
        import simfile
        from .. import gen_timing as G

        sf = simfile.open(G.corpus_path(case["path"]))
        chart = sf.charts[case["chart"]]
        text = chart.notes
        exp, width = decode_reference(text)
        labels = ["corpus"]
        nontrivial = len(exp) >= 2
    else:
        grid = case["grid"]
        text = N.render(grid)
        exp = N.expected_notes(grid)
        width = grid["cols"]
        labels = []
        odd = any((m["rows"] & (m["rows"] - 1)) != 0 for pl in grid["players"] for m in pl)
        ks_before = False
        for pl in grid["players"]:
            for m in pl:
                byrow = {}
                for r, c, t, ks in m["cells"]:
                    byrow.setdefault(r, []).append((c, ks))
                for r, lst in byrow.items():
                    lst.sort()
                    if any(ks is not None for c, ks in lst[:-1]):
                        ks_before = True
        if odd:
            labels.append("rows-not-power-of-two")
        if ks_before:
            labels.append("keysound-before-later-cell")
        if grid["deco"]["eol"] == "\r\n":
            labels.append("crlf")
        if len(grid["players"]) >= 2:
            labels.append("players>=2")
        if N.decorated(grid):
            labels.append("decorated")
        nontrivial = len(exp) >= 2 and bool(labels)

    nd = NoteData(text)
    # iterating is repeatable: an abandoned or nested iteration must not change what a later one yields
    it = iter(nd)
    first = next(it, None)
    for _outer in nd:
        for _inner in nd:
            break
        break
    del it
    got = list(nd)
    need(first is None or (got and fields(first) == fields(got[0])), "the first note differs between two iterations of the same NoteData")
    need([fields(n) for n in nd] == [fields(n) for n in got], "a second iteration of the same NoteData yields different notes")
    # two iterators over the same object alive at once, one running a few notes ahead of the other
    ia, ib = iter(nd), iter(nd)
    ra, rb = [], []
    for _ in range(3):
        x = next(ib, None)
        if x is not None:
            rb.append(x)
    done_a = done_b = False
    while not (done_a and done_b):
        x = next(ia, None)
        if x is None:
            done_a = True
        else:
            ra.append(x)
        x = next(ib, None)
        if x is None:
            done_b = True
        else:
            rb.append(x)
    need([fields(n) for n in ra] == [fields(n) for n in got] and [fields(n) for n in rb] == [fields(n) for n in got],
         f"two interleaved iterations of the same NoteData disturb each other; text {text[:300]!r}")
    if len(got) <= 24:
        outer = []
        for n in nd:
            outer.append(n)
            need(len(list(nd)) == len(got), "a nested full iteration yields a different number of notes")
        need([fields(n) for n in outer] == [fields(n) for n in got], f"an iteration is disturbed by full iterations nested inside it; text {text[:300]!r}")
    short = text if len(text) < 400 else text[:400] + "..."
    need(len(got) == len(exp), f"{len(got)} notes decoded, expected {len(exp)}; text {short!r}")
    for i, (g, e) in enumerate(zip(got, exp)):
        need(isinstance(g, Note) and isinstance(g.beat, Beat) and isinstance(g.note_type, NoteType), f"note #{i} is {g!r}")
        need(fields(g) == e, f"note #{i}: (player, beat, column, type, keysound) = {fields(g)}, expected {e}; text {short!r}")
    pos = [(n.player, F(n.beat), n.column) for n in got]
    need(all(a < b for a, b in zip(pos, pos[1:])), f"notes not in strictly increasing (player, beat, column) order; text {short!r}")
    need(nd.columns == width, f"columns = {nd.columns}, row width is {width}; text {short!r}")
    need(str(nd) == text, "str(NoteData(text)) differs from the text")
    need(list(NoteData(nd)) == got and str(NoteData(nd)) == text and NoteData(nd).columns == width, "NoteData(NoteData) differs")
    ssc = SSCChart()
    ssc["NOTES"] = text
    need(list(NoteData(ssc)) == got and NoteData(ssc).columns == width, "NoteData(SSCChart) differs")
    smc = SMChart.blank()
    smc.notes = text
    need(list(NoteData(smc)) == got and str(NoteData(smc)) == text, "NoteData(SMChart) differs")
    evals = len(got) + 4

    # ordering
    def cmp_pair(a, b):
        ka, kb = (a.player, F(a.beat), a.column), (b.player, F(b.beat), b.column)
        for name, op in OPS.items():
            try:
                r = op(a, b)
            except TypeError as e:
                raise Violation(f"{a!r} {name} {b!r} raised TypeError: {e}")
            need(r is op(ka, kb) or r == op(ka, kb), f"{a!r} {name} {b!r} is {r!r}, position order says {op(ka, kb)}")

    pairs = 0
    for a, b in zip(got, got[1:]):
        cmp_pair(a, b)
        cmp_pair(b, a)
        pairs += 2
    n = len(got)
    for i, j in case.get("pairs", []):
        if n:
            cmp_pair(got[i % n], got[j % n])
            pairs += 1
    for spec in case.get("free", []):
        (p1, bn, bd, c1, t1, k1), (p2, bn2, bd2, c2, t2, k2) = spec
        a = Note(beat=Beat(bn, bd), column=c1, note_type=NoteType(t1), player=p1, keysound_index=k1)
        b = Note(beat=Beat(bn2, bd2), column=c2, note_type=NoteType(t2), player=p2, keysound_index=k2)
        cmp_pair(a, b)
        cmp_pair(b, a)
        pairs += 2
        if (p1, F(bn, bd), c1) == (p2, F(bn2, bd2), c2):
            labels.append("free-pair-same-position")
        if p1 != p2:
            labels.append("free-pair-across-players")
    if got:
        key = lambda x: (x.player, F(x.beat), x.column)  # noqa
        perm = case.get("perm") or []
        shuffled = [got[i % n] for i in perm] if perm else list(reversed(got))
        need([key(x) for x in sorted(shuffled)] == sorted(key(x) for x in shuffled), "sorted() disagrees with the position order")
        need(key(min(shuffled)) == min(key(x) for x in shuffled), "min() disagrees with the position order")
        need(key(max(shuffled)) == max(key(x) for x in shuffled), "max() disagrees with the position order")
    return Verdict(nontrivial=nontrivial, labels=sorted(set(labels)), evals=evals + pairs)


# ------------------------------------------------------------------------------------------------

free_note = st.tuples(
    st.integers(0, 2), st.integers(0, 400), st.sampled_from([1, 2, 3, 4, 48, 7, 96, 192, 384, 1000]), st.integers(0, 7),
    st.sampled_from(N.NOTE_CHARS), st.one_of(st.none(), st.integers(0, 99)),
)


@st.composite
def free_pair(draw):
    a = draw(free_note)
    mode = draw(st.integers(0, 4))
    if mode == 4:  # a little later (closer than a tick, 1/48 beat), in a lower or equal column
        den = draw(st.sampled_from([384, 768, 1000, 960]))
        bn = a[1] * den + draw(st.integers(1, den // 48 - 1)) * a[2]
        b = (a[0], bn, a[2] * den, draw(st.integers(0, a[3])), draw(st.sampled_from(N.NOTE_CHARS)), a[5])
    elif mode == 0:
        b = draw(free_note)
    elif mode == 1:  # same position, different type / keysound
        b = (a[0], a[1], a[2], a[3], draw(st.sampled_from(N.NOTE_CHARS)), draw(st.one_of(st.none(), st.integers(0, 99))))
    elif mode == 2:  # other player, otherwise related
        b = (draw(st.integers(0, 2)), a[1], a[2], draw(st.integers(0, 7)), a[4], a[5])
    else:  # same player and beat, other column
        b = (a[0], a[1], a[2], draw(st.integers(0, 7)), draw(st.sampled_from(N.NOTE_CHARS)), a[5])
    return [list(a), list(b)]


def s_case(max_measures):
    def strat():
        return st.fixed_dictionaries(
            {
                "grid": N.grids(max_measures=max_measures),
                "pairs": st.lists(st.tuples(st.integers(0, 500), st.integers(0, 500)), max_size=8),
                "free": st.lists(free_pair(), max_size=4),
                "perm": st.lists(st.integers(0, 500), max_size=12),
            }
        )

    return strat


def corpus_cases():
    return [{"kind": "corpus", "path": rel, "chart": i, "pairs": [[0, 5], [7, 3], [100, 100]], "perm": [5, 3, 9, 1, 1, 200, 7]} for rel, i in N.corpus_charts()]


def parts(tier):
    q = tier == "quick"
    return [
        {"name": "corpus", "kind": "fixed", "cases": corpus_cases},
        {"name": "grids", "kind": "hypothesis", "strategy": s_case(6), "examples": 3000 if q else 16 * 15000},
    ] + ([] if q else [{"name": "long-grids", "kind": "hypothesis", "strategy": s_case(40), "examples": 16 * 1500}])
