"""
C15 - Split timing is all-or-nothing under one rule; displayed BPM follows the same source.

Oracle: the one rule of the property statement, written here over the plain-data configuration
(never over the objects): the chart is the source iff SSC simfile, SSC chart, version >= 0.7 (compared
as Decimal) and some listed chart timing property non-empty.  Expected values are parsed from the
strings this module put into that one source with an own parser (Fraction / Decimal).

Index scheme (mixed radix)
--------------------------
core   c = (kind*7 + version) * CH + r          kind in {0 SM, 1 SSC}, version index into VERSIONS,
                                                 CH = 2 + 3**11,  r = 0 no chart, 1 SM chart,
                                                 r >= 2 SSC chart with pattern p = r-2 whose i-th base-3
                                                 digit is the state of TP[i] (0 absent, 1 empty, 2 non-empty)
side   s = so + 3*co + 9*sd + 27*cd              OFFSET simfile/chart, DISPLAYBPM simfile/chart (0 absent,
                                                 1 empty, 2 value); chart-side digits are 0 when r < 2
whole  w = (c*81 + s)*2 + ignore_specified
"""
from decimal import Decimal as D
from fractions import Fraction as F

from hypothesis import strategies as st

from ..core import Verdict, Violation

ID = "C15"
LEVEL = "exploration"
RULE = (
    "configuration = (simfile kind, version, chart kind, state of each of the 11 chart timing properties, OFFSET and "
    "DISPLAYBPM state on simfile and chart, ignore_specified); chart-less / SM-chart configurations count once (their "
    "chart-side dimensions do not exist), so the core space has 2*7*(2+3^11) = 2 480 086 members and the whole space "
    "core x 81 side states x 2. Enumerated parts, each complete over its core set ('exhaustive' refers to that): "
    "'all sides' = all 81 side states x both ignore_specified values per core configuration; 'rotated' = all 9 OFFSET "
    "states and all 9 DISPLAYBPM states x both ignore_specified values per core configuration, the two 9-state "
    "dimensions paired by an index-derived rotation (core x OFFSET-states and core x DISPLAYBPM-states x ignore are "
    "complete, their product is sampled: 18 of 162 members). quick tier: every core configuration with <= 1 non-absent "
    "chart timing property, all sides (350 core); every core configuration with <= 2 non-absent properties, rotated "
    "(3 430 core). thorough tier: <= 2 non-absent, all sides; every core configuration (2 480 086), rotated. "
    "Enumerated parts use fixed recognisable values, the DISPLAYBPM class rotating with the index. Part 'sampled' "
    "(Hypothesis; 60 000 configurations in the quick tier, three per case sharing one set of values): whole-space "
    "indices drawn uniformly or with a sparse pattern, values random within syntactic classes (timing lists of 1-4 "
    "events with distinct values, DISPLAYBPM one number / two numbers / '*' / malformed), objects built by assignment "
    "or by parsing a rendered SSC/SM text, simfile lists optionally absent. Simfile and chart always carry disjoint "
    "values. Non-trivial = an SSC chart is supplied (two candidate sources whose observable values differ, the rule "
    "decides); distinct = distinct whole-space index (enumerated; a configuration met by two parts is counted once) / "
    "distinct case JSON (sampled); one evaluation = one TimingData construction or one displaybpm call compared with "
    "the oracle"
)
RULE += " " + 'Added after the seeding rounds: every other SM configuration spells its stops FREEZES; SSC simfiles and charts carry a FREEZES decoy key in every other configuration; the version is written in several spellings of the same number; one BPMS value in three lists is negative.'
RULE += " " + "Round 6: in every third configuration the TimingData lists are edited in place and the same source is read again: the second object must hold the source's values."
ASSUMPTIONS = [
    "CPython Fraction and Decimal are the reference for parsing 'beat=value' lists, offsets and DISPLAYBPM numbers",
    "beats in generated lists are multiples of 1/4 written with three decimals (exact decimals on the tick grid; snapping is C14's subject)",
    "an empty OFFSET counts as 'the source has none' (offset 0)",
    "msdparser tokenizer is trusted on the parse route (plain values without MSD metacharacters)",
]

TP = ["BPMS", "STOPS", "DELAYS", "TIMESIGNATURES", "TICKCOUNTS", "COMBOS", "WARPS", "SPEEDS", "SCROLLS", "FAKES", "LABELS"]
LISTS = (("bpms", "BPMS"), ("stops", "STOPS"), ("delays", "DELAYS"), ("warps", "WARPS"))
VERSIONS = [None, "", "0.69", "0.7", "0.70", "0.83", "1.0"]
RESPELL = {"0.69": ["0.69", " 0.69", ".69", "0.690"], "0.7": ["0.7", ".7", " 0.7", "+0.7"], "0.70": ["0.70", "0.70 ", "00.70"],
           "0.83": ["0.83", " 0.83", "+0.83", "0.83\n"], "1.0": ["1.0", "1", " 1.0", "1."]}
NPAT = 3**11
CH = NPAT + 2
NCORE = 14 * CH
NWHOLE = NCORE * 162
POW3 = [3**i for i in range(11)]

# fixed recognisable values for the enumerated parts (simfile and chart disjoint)
SIM_FIXED = {
    "BPMS": "0.000=150.000,4.000=90.000",
    "STOPS": "1.000=0.100",
    "DELAYS": "2.000=0.200",
    "WARPS": "3.000=1.000",
    "OFFSET": "0.111",
}
CH_FIXED = {
    "BPMS": "0.000=333.000,16.000=77.000",
    "STOPS": "5.000=0.500",
    "DELAYS": "6.000=0.600",
    "WARPS": "7.000=2.000",
    "TIMESIGNATURES": "0.000=3=4",
    "TICKCOUNTS": "0.000=8",
    "COMBOS": "0.000=2",
    "SPEEDS": "0.000=2.000=0.000=0",
    "SCROLLS": "0.000=0.500",
    "FAKES": "9.000=1.000",
    "LABELS": "0.000=Chart Start",
    "OFFSET": "-0.222",
}
SIM_DBPM = [["num", "1111"], ["range", "1100:1900.5"], ["star", "*"], ["bad", "abc"], ["bad", "1:2:3"], ["bad", "1111:"]]
CH_DBPM = [["num", "2222.25"], ["range", "2100:2900"], ["star", "*"], ["bad", "x2222"], ["bad", ":2222"], ["bad", "2100:2900:1"]]

SPARSE_P = sorted(
    {0}
    | {a * POW3[i] for i in range(11) for a in (1, 2)}
    | {a * POW3[i] + b * POW3[j] for i in range(11) for j in range(i + 1, 11) for a in (1, 2) for b in (1, 2)}
)
SPARSE1_P = sorted({0} | {a * POW3[i] for i in range(11) for a in (1, 2)})  # at most one non-absent property
NSPARSE = 14 * (2 + len(SPARSE_P))  # 3430 core configurations with <= 2 non-absent chart timing properties
NSPARSE1 = 14 * (2 + len(SPARSE1_P))  # 350 with <= 1


def need(cond, msg):
    if not cond:
        raise Violation(msg)


# --------------------------------------------------------------------------------------
# the oracle's own parsers

_parse_cache = {}


def parse_list(text):
    """'beat=value,beat=value' -> [(Fraction, Decimal)]; None / blank -> []"""
    if text is None:
        return []
    got = _parse_cache.get(text)
    if got is None:
        got = []
        if text.strip():
            for row in text.split(","):
                b, v = row.strip().split("=")
                got.append((F(D(b)), D(v)))
        if len(_parse_cache) < 4096:
            _parse_cache[text] = got
    return got


def _plain_number(t):
    """digits with an optional fractional part - the only spelling generated for 'a number'"""
    if not t:
        return False
    a, dot, b = t.partition(".")
    return a.isdigit() and a.isascii() and (not dot or (b.isdigit() and b.isascii()))


def classify_dbpm(text):
    """syntactic class of a DISPLAYBPM value: star / num / range / empty / bad"""
    if text == "*":
        return "star"
    if text == "":
        return "empty"
    parts_ = text.split(":")
    if len(parts_) == 1 and _plain_number(parts_[0]):
        return "num"
    if len(parts_) == 2 and _plain_number(parts_[0]) and _plain_number(parts_[1]):
        return "range"
    return "bad"


def expected_display(dbpm_present, dbpm_text, ignore, bpms_text):
    if dbpm_present and not ignore:
        cls = classify_dbpm(dbpm_text)
        if cls == "star":
            return ("random",)
        if cls == "num":
            return ("static", D(dbpm_text))
        if cls == "range":
            a, b = dbpm_text.split(":")
            return ("range", D(a), D(b))
    vals = [v for _, v in parse_list(bpms_text)]
    if len(vals) == 1:
        return ("static", vals[0])
    return ("range", min(vals), max(vals))


def version_at_least_07(ver):
    return D(ver if ver else "0") >= D("0.7")


# --------------------------------------------------------------------------------------
# index <-> configuration


def decode_core(c):
    kv, r = divmod(c, CH)
    return kv // 7, kv % 7, r


def describe(kind, ver, r, s, ign):
    if r == 0:
        chart = "no chart"
    elif r == 1:
        chart = "SM chart"
    else:
        p = r - 2
        names = {0: None, 1: "=''", 2: "=value"}
        chart = "SSC chart{" + ", ".join(TP[i] + names[(p // POW3[i]) % 3] for i in range(11) if (p // POW3[i]) % 3) + "}"
    st3 = ("absent", "''", "value")
    return (
        f"{'SSC' if kind else 'SM'} simfile VERSION={VERSIONS[ver]!r}, {chart}, simfile OFFSET {st3[s % 3]}, chart OFFSET "
        f"{st3[(s // 3) % 3]}, simfile DISPLAYBPM {st3[(s // 9) % 3]}, chart DISPLAYBPM {st3[s // 27]}, ignore_specified={bool(ign)}"
    )


def _hash9(c):
    return ((c * 2654435761) >> 11) % 9


# --------------------------------------------------------------------------------------
# building the real objects and judging one configuration


class Ctx:
    __slots__ = ("SMSimfile", "SSCSimfile", "SMChart", "SSCChart", "TimingData", "displaybpm", "Static", "Range", "Random")

    def __init__(self):
        from simfile.sm import SMChart, SMSimfile
        from simfile.ssc import SSCChart, SSCSimfile
        from simfile.timing import TimingData
        from simfile.timing.displaybpm import RandomDisplayBPM, RangeDisplayBPM, StaticDisplayBPM, displaybpm

        self.SMSimfile, self.SSCSimfile, self.SMChart, self.SSCChart = SMSimfile, SSCSimfile, SMChart, SSCChart
        self.TimingData, self.displaybpm = TimingData, displaybpm
        self.Static, self.Range, self.Random = StaticDisplayBPM, RangeDisplayBPM, RandomDisplayBPM


def plan(kind, ver, r, s, simv, chv, sim_dbpm, ch_dbpm, sim_absent=()):
    """-> (simfile pairs, chart pairs or None) as ordered (key, value) lists, from the configuration alone"""
    so, co, sd, cd = s % 3, (s // 3) % 3, (s // 9) % 3, s // 27
    sim = []
    if VERSIONS[ver] is not None:
        sim.append(("VERSION", VERSIONS[ver]))
    for k in ("BPMS", "STOPS", "DELAYS", "WARPS"):
        if k not in sim_absent:
            sim.append((k, simv[k]))
    if so:
        sim.append(("OFFSET", "" if so == 1 else simv["OFFSET"]))
    if sd:
        sim.append(("DISPLAYBPM", "" if sd == 1 else sim_dbpm))
    if r < 2:
        return sim, None
    p = r - 2
    ch = []
    for i, k in enumerate(TP):
        d = (p // POW3[i]) % 3
        if d:
            ch.append((k, "" if d == 1 else chv[k]))
    if co:
        ch.append(("OFFSET", "" if co == 1 else chv["OFFSET"]))
    if cd:
        ch.append(("DISPLAYBPM", "" if cd == 1 else ch_dbpm))
    return sim, ch


def render_text(kind, sim_pairs, ch_pairs, r):
    out = [f"#{k}:{v};\n" for k, v in sim_pairs]
    if kind == 1:
        if r >= 2:
            out.append("#NOTEDATA:;\n")
            out.extend(f"#{k}:{v};\n" for k, v in ch_pairs)
            out.append("#NOTES:\n0000\n0000\n0000\n0000\n;\n")
    else:
        if r == 1:
            out.append("#NOTES:\n     dance-single:\n     :\n     Beginner:\n     1:\n     0,0,0,0,0:\n0000\n0000\n0000\n0000\n;\n")
    return "".join(out)


def build(cx, kind, r, sim_pairs, ch_pairs, route):
    """route 0: assignment on empty objects; route 1: parse a rendered text where the format can carry the chart"""
    cls = cx.SSCSimfile if kind else cx.SMSimfile
    if route == 1:
        text = render_text(kind, sim_pairs, ch_pairs, r)
        sim = cls(string=text)
        if r == 0:
            return sim, None
        if r == 1:
            return sim, (sim.charts[0] if kind == 0 else cx.SMChart.blank())
        if kind == 1:
            return sim, sim.charts[0]
        chart = cx.SSCChart.from_str("#NOTEDATA:;\n" + "".join(f"#{k}:{v};\n" for k, v in ch_pairs) + "#NOTES:\n0000\n;\n")
        return sim, chart
    sim = cls(string="")
    for k, v in sim_pairs:
        sim[k] = v
    if r == 0:
        return sim, None
    if r == 1:
        return sim, cx.SMChart.blank()
    chart = cx.SSCChart()
    for k, v in ch_pairs:
        chart[k] = v
    chart["NOTES"] = "0000\n0000\n0000\n0000\n"
    return sim, chart


def judge(cx, kind, ver, r, s, igns, simv, chv, sim_dbpm, ch_dbpm, route=0, none_form=0, sim_absent=(), do_td=True, labels=None):
    """Evaluate one configuration (for each ignore value in igns). Returns number of oracle evaluations."""
    sim_pairs, ch_pairs = plan(kind, ver, r, s, simv, chv, sim_dbpm, ch_dbpm, sim_absent)
    # an SM simfile may spell its stops FREEZES (the documented legacy alias of STOPS): every other SM configuration does
    legacy = kind == 0 and (s + r + ver + route) % 2 == 1
    real_pairs = [("FREEZES" if (legacy and k == "STOPS") else k, v) for k, v in sim_pairs]
    # the version is a number: the same number in another spelling (blank after the colon, sign, bare dot) is the same version
    salt = s + r + route
    real_pairs = [(k, RESPELL.get(v, [v])[salt % len(RESPELL.get(v, [v]))] if k == "VERSION" else v) for k, v in real_pairs]
    if kind == 1 and salt % 2 == 1:
        # FREEZES is an alias of STOPS on SM simfiles only: on an SSC simfile (and chart) it is just another key
        real_pairs.append(("FREEZES", "9.000=9.000"))
        if ch_pairs is not None:
            ch_pairs = list(ch_pairs) + [("FREEZES", "8.000=8.000")]
    sim, chart = build(cx, kind, r, real_pairs, ch_pairs, route)
    if legacy and labels is not None and any(k == "STOPS" for k, _ in sim_pairs):
        labels.append("sm-stops-spelled-FREEZES")

    # ---- the rule, over the configuration data only
    use_chart = (
        kind == 1
        and r >= 2
        and version_at_least_07(VERSIONS[ver])
        and any(v != "" for k, v in ch_pairs if k in TP)
    )
    src = dict(ch_pairs if use_chart else sim_pairs)
    evals = 0

    if do_td:
      # the second pass reads the same source again after the first object's lists were edited in place: every TimingData
      # owns its lists (nothing shared between objects, nothing remembered per string)
      for again in ((False, True) if (s + r + ver) % 3 == 0 else (False,)):
            if chart is None:
                td = cx.TimingData(sim) if none_form == 0 else cx.TimingData(sim, None)
            else:
                td = cx.TimingData(sim, chart)
            evals += 1
            for attr, key in LISTS:
                got = [(F(e.beat), e.value) for e in getattr(td, attr)]
                exp = parse_list(src.get(key))
                if got != exp:
                    raise Violation(
                        f"TimingData.{attr} = {got!r}, expected {exp!r} (all fields from the {'chart' if use_chart else 'simfile'}); "
                        f"configuration: {describe(kind, ver, r, s, 0)}; simfile {sim_pairs!r}; chart {ch_pairs!r}"
                    )
            off = src.get("OFFSET")
            exp_off = D(off) if off else D(0)
            if not (isinstance(td.offset, D) and td.offset == exp_off):
                raise Violation(
                    f"TimingData.offset = {td.offset!r}, expected {exp_off!r} from the {'chart' if use_chart else 'simfile'}; "
                    f"configuration: {describe(kind, ver, r, s, 0)}; simfile {sim_pairs!r}; chart {ch_pairs!r}"
                )
            if not again:
                from simfile.timing import Beat, BeatValue

                for attr, _key in LISTS:
                    lst = getattr(td, attr)
                    lst.append(BeatValue(Beat(999), D("9.5")))
                    if len(lst) > 1:
                        del lst[0]

    # ---- displayed BPM (only where the chosen source has a non-empty BPMS: the property's quantifier; a blank-only
    # BPMS holds no BPM at all and is left out as well)
    if (src.get("BPMS") or "").strip():
        for ign in igns:
            if chart is None:
                d = cx.displaybpm(sim, ignore_specified=bool(ign))
            else:
                d = cx.displaybpm(sim, chart, ignore_specified=bool(ign))
            evals += 1
            if type(d) is cx.Static:
                got = ("static", d.value)
            elif type(d) is cx.Range:
                got = ("range", d.min, d.max)
            elif type(d) is cx.Random:
                got = ("random",)
            else:
                got = ("?", repr(d))
            exp = expected_display("DISPLAYBPM" in src, src.get("DISPLAYBPM"), ign, src["BPMS"])
            if got != exp:
                raise Violation(
                    f"displaybpm(...) = {d!r}, expected {exp!r} from the {'chart' if use_chart else 'simfile'} "
                    f"(DISPLAYBPM {src.get('DISPLAYBPM')!r}, BPMS {src['BPMS']!r}); configuration: {describe(kind, ver, r, s, ign)}; "
                    f"simfile {sim_pairs!r}; chart {ch_pairs!r}"
                )
            if labels is not None:
                if "DISPLAYBPM" not in src:
                    labels.append("dbpm:absent->bpms")
                elif ign:
                    labels.append("dbpm:ignored->bpms")
                else:
                    cls = classify_dbpm(src["DISPLAYBPM"])
                    labels.append({"star": "dbpm:random", "num": "dbpm:specified-static", "range": "dbpm:specified-range", "empty": "dbpm:empty->bpms", "bad": "dbpm:malformed->bpms"}[cls])
    elif labels is not None:
        labels.append("dbpm-clause-not-applicable:source-without-bpms")
    if labels is not None:
        labels.append("source:chart" if use_chart else "source:simfile")
    return evals


def fixed_dbpm(c, s):
    h = (c * 40503 + s * 97) >> 3
    return SIM_DBPM[h % len(SIM_DBPM)][1], CH_DBPM[(h // 7) % len(CH_DBPM)][1]


def check(case):
    cx = Ctx()
    kind_ = case["kind"]

    if kind_ == "chunk":
        lo, hi = case["lo"], case["hi"]
        space, full = case["space"], case["sides"] == "full"
        skip_upto = case["counted_elsewhere_upto"]  # cores with <= this many non-absent properties are counted by another part
        evals = 0
        nontriv = 0
        for j in range(lo, hi):
            if space == "all":
                kind, ver, r = decode_core(j)
                c = j
            else:
                pats = SPARSE1_P if space == "sparse1" else SPARSE_P
                kv, rr = divmod(j, 2 + len(pats))
                r = rr if rr < 2 else 2 + pats[rr - 2]
                kind, ver = kv // 7, kv % 7
                c = kv * CH + r
            if r < 2:
                # chart-less: the chart-side dimensions do not exist; 9 side states
                for t in range(9):
                    s = (t % 3) + 9 * (t // 3)
                    a, b = fixed_dbpm(c, s)
                    evals += judge(cx, kind, ver, r, s, (0, 1), SIM_FIXED, CH_FIXED, a, b, none_form=t & 1, route=(c + t) & 1 if full else 0)
                continue
            if full:
                for s in range(81):
                    a, b = fixed_dbpm(c, s)
                    evals += judge(cx, kind, ver, r, s, (0, 1), SIM_FIXED, CH_FIXED, a, b, route=(c + s) & 1 if s % 5 == 0 else 0)
                members = 162
            else:
                # all 9 OFFSET states and all 9 DISPLAYBPM states, paired by an index-derived rotation
                shift = _hash9(c)
                for t in range(9):
                    u = (t + shift) % 9
                    s = (t % 3) + 3 * (t // 3) + 9 * (u % 3) + 27 * (u // 3)
                    a, b = fixed_dbpm(c, s)
                    evals += judge(cx, kind, ver, r, s, (0, 1), SIM_FIXED, CH_FIXED, a, b)
                members = 18
            p = r - 2
            nonabsent = 0
            while p:
                if p % 3:
                    nonabsent += 1
                p //= 3
            if nonabsent > skip_upto:
                nontriv += members
        return Verdict(nontrivial=nontriv > 0, evals=evals, weight=nontriv, labels=(f"chunk:{space}:{case['sides']}",))

    if kind_ == "one":
        v = case["vals"]
        labels = []
        evals = 0
        nontriv = False
        for w in case["ws"]:
            need(0 <= w < NWHOLE, f"case index {w} outside the configuration space")
            ign = w & 1
            c, s = divmod(w >> 1, 81)
            kind, ver, r = decode_core(c)
            if r < 2 and ((s // 3) % 3 or s // 27):
                # chart-side states do not exist without an SSC chart: canonical member of the class
                s = (s % 3) + 9 * ((s // 9) % 3)
                labels.append("chartless-side-collapsed")
            evals += judge(
                cx, kind, ver, r, s, (ign,), v["sim"], v["chart"], v["sim_dbpm"][1], v["chart_dbpm"][1],
                route=case["route"], none_form=case["none_form"], sim_absent=tuple(case["sim_absent"]), labels=labels,
            )
            labels.append("configs-sampled")
            labels.append("kind:" + ("SSC" if kind else "SM"))
            labels.append("chart:" + ("none", "sm")[r] if r < 2 else "chart:ssc")
            labels.append("version:" + repr(VERSIONS[ver]))
            labels.append("route:" + ("assign", "parse")[case["route"]])
            if r >= 2:
                nontriv = True
                p = r - 2
                digits = [(p // POW3[i]) % 3 for i in range(11)]
                ne = sum(1 for d in digits if d == 2)
                labels.append("nonempty-chart-props:" + ("0" if ne == 0 else "1" if ne == 1 else "2+"))
                if ne == 0 and any(d == 1 for d in digits):
                    labels.append("only-empty-chart-props")
            if case["sim_absent"]:
                labels.append("simfile-list-absent")
        return Verdict(nontrivial=nontriv, evals=evals, labels=labels)

    raise Violation(f"unknown case kind {kind_}")


# --------------------------------------------------------------------------------------
# generators

def _chunks(space, sides, total, size, skip_upto):
    def it(shard, nshards):
        i = 0
        lo = 0
        while lo < total:
            if i % nshards == shard:
                yield {"kind": "chunk", "space": space, "sides": sides, "lo": lo, "hi": min(lo + size, total), "counted_elsewhere_upto": skip_upto}
            lo += size
            i += 1

    return it


def _beat(k):
    return f"{k // 4}.{(k % 4) * 250:03d}"


SEPS = [",", ",\n", ", "]


def timing_list_from(x, lo, hi, max_events):
    """Derive a 'beat=value' list from one drawn integer: 1..max_events events on non-decreasing quarter beats
    (occasionally the same beat twice), pairwise distinct values with three decimals in [lo, hi)."""
    n = 1 + x % max_events
    x //= max_events
    sep = SEPS[x % 3]
    x //= 3
    span = (hi - lo) * 1000
    k = -1
    seen = set()
    rows = []
    for i in range(n):
        # steps of 0 repeat the previous beat: a list may name one beat twice (every entry still counts)
        step = x % 98
        k += step if i else step % 97 + 1
        x //= 98
        v = x % span
        x //= span
        while v in seen:
            v = (v + 1) % span
        seen.add(v)
        v += lo * 1000
        rows.append(f"{_beat(k)}={v // 1000}.{v % 1000:03d}")
    return sep.join(rows)


def number_from(y, lo, hi):
    """a plain non-negative number in [lo, hi): digits with 0..6 fractional digits"""
    ip = lo + y % (hi - lo)
    y //= hi - lo
    places = y % 7
    y //= 7
    if places == 0:
        return str(ip)
    return f"{ip}.{y % 10**places:0{places}d}"


WORDS = ["abc", "fast", "x", "bpm", "n/a", "?", "**", "~", "#"]
BIG = st.integers(0, 2**120)
MID = st.integers(0, 2**44)


@st.composite
def _dbpm(draw, lo, hi):
    cls = draw(st.sampled_from(["num", "num", "range", "range", "star", "bad", "bad"]))
    if cls == "star":
        return ["star", "*"]
    a = number_from(draw(MID), lo, hi)
    if cls == "num":
        return ["num", a]
    b = number_from(draw(MID), lo, hi)
    if cls == "range":
        if D(a) > D(b):
            a, b = b, a
        return ["range", f"{a}:{b}"]
    c_ = number_from(draw(MID), lo, hi)
    word = draw(st.sampled_from(WORDS))
    shape = draw(st.integers(0, 11))
    text = [
        word, f"{a}:{b}:{c_}", f"{a}:", f":{b}", ":", f"{a}:{word}", f"{word}:{b}", f"{a}{word}", f"{word}{a}", f"{a}~{b}", f"*:{b}", f"{a}:*",
    ][shape]
    return ["bad", text]


@st.composite
def _index(draw):
    mode = draw(st.integers(0, 3))
    if mode == 0:
        w = draw(st.integers(0, NWHOLE - 1))
    else:
        # sparse / boundary-hugging patterns: few non-absent properties, or only empties plus at most one value
        kv = draw(st.sampled_from(range(14)))
        if mode == 1:
            r = draw(st.sampled_from([0, 1])) if draw(st.integers(0, 5)) == 0 else 2 + draw(st.sampled_from(SPARSE_P))
        elif mode == 2:
            bits = draw(st.integers(0, 2**11 - 1))
            digits = [(bits >> i) & 1 for i in range(11)]
            one = draw(st.integers(0, 21))
            if one < 11:
                digits[one] = 2
            r = 2 + sum(d * POW3[i] for i, d in enumerate(digits))
        else:
            r = 2 + draw(st.integers(0, NPAT - 1))
            kv = 7 + kv % 7  # SSC simfile: the rule's other conjuncts decide
        s = draw(st.integers(0, 161))
        w = (kv * CH + r) * 162 + s
    c = (w >> 1) // 81
    r = c % CH
    if r < 2:
        s = (w >> 1) % 81
        s = (s % 3) + 9 * ((s // 9) % 3)
        w = (c * 81 + s) * 2 + (w & 1)
    return w


PER_CASE = 3  # configuration indices per sampled case (they share one set of random values)


def negate_one(list_text, x):
    """BPMS values are signed numbers (negative BPMs exist in real files): put a minus sign on one value, 1 time in 3"""
    if x % 3:
        return list_text
    seps = [sp for sp in SEPS if sp in list_text] or [","]
    rows = list_text.split(seps[0])
    i = (x // 3) % len(rows)
    b, v = rows[i].split("=")
    rows[i] = b + "=-" + v
    return seps[0].join(rows)


@st.composite
def s_one(draw):
    ws = [draw(_index()) for _ in range(PER_CASE)]
    sim = {
        "BPMS": negate_one(timing_list_from(draw(BIG), 100, 500, 4), draw(st.integers(0, 11))),
        "STOPS": timing_list_from(draw(BIG), 1, 5, 2),
        "DELAYS": timing_list_from(draw(BIG), 1, 5, 2),
        "WARPS": timing_list_from(draw(BIG), 1, 5, 2),
        "OFFSET": draw(st.integers(1, 99999).map(lambda n: f"{n // 1000}.{n % 1000:03d}")),
    }
    chart = {
        "BPMS": negate_one(timing_list_from(draw(BIG), 500, 1000, 4), draw(st.integers(0, 11))),
        "STOPS": timing_list_from(draw(BIG), 5, 10, 2),
        "DELAYS": timing_list_from(draw(BIG), 5, 10, 2),
        "WARPS": timing_list_from(draw(BIG), 5, 10, 2),
        "OFFSET": draw(st.integers(1, 99999).map(lambda n: f"-{n // 1000}.{n % 1000:03d}")),
    }
    for k in TP:
        if k not in chart:
            chart[k] = CH_FIXED[k]
    # a value made of blanks / line breaks only is still a non-empty value (what '#STOPS:\n;' loads as)
    if draw(st.integers(0, 7)) == 0:
        for k in draw(st.lists(st.sampled_from(TP), min_size=1, max_size=11, unique=True)):
            chart[k] = draw(st.sampled_from([" ", "\n", " \n ", "\t"]))
    sa = draw(st.integers(0, 63))
    sim_absent = [k for i, k in enumerate(["BPMS", "STOPS", "DELAYS", "WARPS"]) if sa < 16 and (sa >> i) & 1]
    if draw(st.integers(0, 9)) == 0:
        # the chart repeats the song's timing lists verbatim (what the editor writes): it is still the source, and its own
        # OFFSET / DISPLAYBPM must be used. Configurations: SSC simfile, qualifying version, exactly these lists non-empty.
        subset = draw(st.lists(st.sampled_from(["BPMS", "STOPS", "DELAYS", "WARPS"]), min_size=1, max_size=4, unique=True))
        for k in ("BPMS", "STOPS", "DELAYS", "WARPS"):
            chart[k] = sim[k]
        sim_absent = [k for k in ("BPMS", "STOPS", "DELAYS", "WARPS") if k not in subset and k != "BPMS"]
        if "BPMS" not in subset:
            subset.append("BPMS")
        r = 2 + sum(2 * POW3[TP.index(k)] for k in subset)
        ver = draw(st.sampled_from([3, 4, 5, 6]))
        for _ in range(2):
            side = draw(st.integers(0, 80))
            ign = draw(st.integers(0, 1))
            ws.append((((1 * 7 + ver) * CH + r) * 81 + side) * 2 + ign)
    return {
        "kind": "one",
        "ws": ws,
        "route": draw(st.integers(0, 1)),
        "none_form": draw(st.integers(0, 1)),
        "sim_absent": sim_absent,
        "vals": {"sim": sim, "chart": chart, "sim_dbpm": draw(_dbpm(1000, 2000)), "chart_dbpm": draw(_dbpm(2000, 3000))},
    }


def parts(tier):
    q = tier == "quick"
    if q:
        out = [
            {"name": "sparse1-core-all-sides", "kind": "enum", "iter": _chunks("sparse1", "full", NSPARSE1, 3, -1), "exhaustive": True},
            {"name": "sparse2-core", "kind": "enum", "iter": _chunks("sparse2", "rot", NSPARSE, 40, 1), "exhaustive": True},
        ]
    else:
        out = [
            {"name": "sparse2-core-all-sides", "kind": "enum", "iter": _chunks("sparse2", "full", NSPARSE, 10, -1), "exhaustive": True},
            {"name": "all-core", "kind": "enum", "iter": _chunks("all", "rot", NCORE, 1500, 2), "exhaustive": True},
        ]
    out.append({"name": "sampled", "kind": "hypothesis", "strategy": s_one, "examples": (60000 if q else 16 * 45000) // PER_CASE})
    return out
