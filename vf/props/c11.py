"""
C11 - Beat -> time conversion matches the exact timeline for all event interleavings.

Oracle: vf.model_timing.Model (exact rational evaluation), tolerance 1e-9 s as the property states.
"""
from decimal import Decimal as D
from fractions import Fraction as F

from hypothesis import strategies as st

from .. import gen_timing as G
from ..core import Verdict, Violation
from ..model_timing import TAG_NAMES, TICK, Model, simfile_text, timing_data

ID = "C11"
LEVEL = "exploration"
TOL = 1e-9
RULE = (
    "timelines: (a) complete enumeration of every set of up to 4 (quick: 3) events placed on the beat grid "
    "{0,1/2,1,3/2,2,5/2} from {BPM change, stop, delay, warp 1/2, warp 1} (at most one warp per beat); (b) Hypothesis "
    "timelines with up to 4 events of each kind on anchor beats chosen to coincide, last beat <= 200, BPM 1..2000, "
    "pauses 0.001..10 s, tick-multiple warp lengths, any offset; (c) the timing data of every corpus simfile and chart. "
    "Every timeline is probed at every event beat and warp end, their neighbouring ticks, fixed and random beats incl. "
    "negative and off-grid ones, under every EventTag (each probe x tag is one evaluation), plus monotonicity, offset "
    "shift and redundant-BPM-insertion relations. Non-trivial = timeline with at least one coincidence (two event kinds "
    "on one beat, event at/inside/at the end of a warp, overlapping/nested/touching warps, event at beat 0); "
    "distinct = distinct timeline (canonical JSON of the case)"
)
RULE += " " + 'Added after the seeding rounds: the timing data reaches the engine from an SSC simfile, an SM simfile, an SM simfile spelling its stops FREEZES, an SM simfile with STOPS and a stale FREEZES key (before or after it), or an SSC chart beside decoy simfile values under several spellings of the version; numbers also in exponent / signed / bare-dot spelling; offset absent or empty; half-tick (off-grid) probes around every event, negative ones next to beat 0 included.'
RULE += " " + "Round 6: stop / delay lengths down to a microsecond (six decimals), tempo changes that only show in the 4th..6th decimal; part 'unaligned-warp-times': one warp whose length is not a whole number of ticks under a constant tempo - every later beat is reached between L and R beats' worth of time earlier than without the warp (L the exact length, R the nearest whole number of ticks)."
RULE += " " + 'Round 7: offsets with more than six decimals; after every engine another engine is built from other timing data before the first one is asked anything.'
ASSUMPTIONS = [
    "exact rational model in vf/model_timing.py written from the documented semantics",
    "float comparison sound only inside the magnitude bound (times < 1e5 s)",
    "timing strings reach the engine through SSCSimfile -> TimingData (covered by C14)",
]


def need(c, msg):
    if not c:
        raise Violation(msg)


_OTHER_TL = {"bpms": [[0, "77"], [96, "155.5"]], "stops": [[48, "0.75"]], "delays": [[48, "0.5"]], "warps": [[144, 48]], "offset": "0.333"}


def build_engine(tl):
    from simfile.ssc import SSCSimfile
    from simfile.timing import TimingData
    from simfile.timing.engine import TimingEngine

    eng = TimingEngine(timing_data(tl))
    # another engine from other timing data, built after this one and before this one is asked anything: engines are
    # independent objects
    TimingEngine(timing_data(_OTHER_TL)).time_at(frac_beat(F(3)))
    return eng


def frac_beat(fr):
    from simfile.timing import Beat

    return Beat(fr.numerator, fr.denominator)


def load_corpus_case(case):
    """corpus case -> timeline dict, read through the library's own timing reader"""
    import simfile
    from simfile.timing import TimingData

    sf = simfile.open(G.corpus_path(case["path"]))
    chart = sf.charts[case["chart"]] if case.get("chart") is not None else None
    td = TimingData(sf, chart) if chart is not None else TimingData(sf)

    def ticks(b):
        v = F(b) * 48
        if v.denominator != 1:
            return None
        return int(v)

    tl = {"bpms": [], "stops": [], "delays": [], "warps": [], "offset": str(td.offset)}
    for name in ("bpms", "stops", "delays"):
        for ev in getattr(td, name):
            tl[name].append([ticks(ev.beat), str(ev.value)])
    for ev in td.warps:
        l = F(ev.value) * 48
        tl["warps"].append([ticks(ev.beat), int(l) if l.denominator == 1 else None])
    return tl


def in_domain(tl):
    try:
        if not tl["bpms"] or tl["bpms"][0][0] != 0:
            return False
        for name in ("bpms", "stops", "delays", "warps"):
            ks = [k for k, _ in tl[name]]
            if any(k is None or k < 0 for k in ks) or ks != sorted(set(ks)):
                return False
        if any(not (1 <= D(v) <= 2000) for _, v in tl["bpms"]):
            return False
        if any(D(v) <= 0 for _, v in tl["stops"] + tl["delays"]):
            return False
        if any(l is None or l <= 0 for _, l in tl["warps"]):
            return False
        last = max([k for n in ("bpms", "stops", "delays") for k, _ in tl[n]] + [k + l for k, l in tl["warps"]])
        return last <= 400 * 48
    except Exception:
        return False


def edit_in_place(tl, td, mode):
    """edit the public lists of a TimingData object in place; returns the timeline the object now describes.
    mode "replace": equal-length replacements only (lengths and offset unchanged) ; mode "append": a stop is appended."""
    import copy

    from simfile.timing import Beat, BeatValue

    for name in ("bpms", "stops", "delays", "warps"):
        if len(getattr(td, name)) != len(tl[name]):
            raise Violation(f"TimingData.{name} holds {len(getattr(td, name))} entries, the source declares {len(tl[name])}: {[str(x) for x in getattr(td, name)][:6]} vs {tl[name][:6]}")
    tl_b = copy.deepcopy(tl)
    b0 = D(tl["bpms"][0][1])
    nb = b0 + 17 if b0 + 17 <= 2000 else b0 - 17
    tl_b["bpms"][0][1] = str(nb)
    td.bpms[0] = BeatValue(td.bpms[0].beat, nb)
    if mode == "replace":
        for name in ("stops", "delays"):
            if tl[name]:
                nv = D(tl[name][0][1]) + D("0.25")
                tl_b[name][0][1] = str(nv)
                lst = getattr(td, name)
                lst[0] = BeatValue(lst[0].beat, nv)
        if tl["warps"]:
            k, l = tl["warps"][0]
            tl_b["warps"][0] = [k, l + 24]
            td.warps[0] = BeatValue(td.warps[0].beat, D(l + 24) / D(48))
    else:
        last = max([k for n in ("bpms", "stops", "delays") for k, _ in tl[n]] + [k + l for k, l in tl["warps"]])
        tl_b["stops"] = list(tl_b["stops"]) + [[last + 24, "0.5"]]
        td.stops.append(BeatValue(Beat(last + 24, 48), D("0.5")))
    return tl_b


def reuse_clause(tl, tags, rank):
    from simfile.ssc import SSCSimfile
    from simfile.timing import Beat, TimingData
    from simfile.timing.engine import TimingEngine

    n = 0
    for mode in ("replace", "append"):
        td = timing_data(tl)
        first = TimingEngine(td)
        first.time_at(Beat(1))
        tl_b = edit_in_place(tl, td, mode)
        second = TimingEngine(td)
        mb = Model(tl_b)
        for b in mb.probe_beats():
            B = frac_beat(b)
            for tag in (tags[0], tags[5], tags[6]):
                n += 1
                got = float(second.time_at(B, tag))
                exp = float(mb.time(b, rank[tag]))
                need(
                    abs(got - exp) <= TOL,
                    f"an engine built from a TimingData object after the object was edited in place ({mode}: now {tl_b}) and after an earlier "
                    f"engine had been built from it reports time_at({b}, {tag.name}) = {got!r}, exact {exp!r}; original timeline {tl}",
                )
            need(second.bpm_at(B) == mb.bpm_decimal(b), f"engine built from the edited TimingData object ({mode}): bpm_at({b}) = {second.bpm_at(B)!r}; original timeline {tl}")
    return n


def check_unaligned(case):
    """one warp whose length L is not a whole number of ticks (three decimals, no exact half tick), constant tempo.
    How such a length is rounded is not stated, so the skipped stretch is only bounded: it lies between L and the
    nearest whole number of ticks R. Every beat at least two ticks past the warp is reached
    [min(L, R), max(L, R)] x (60 / BPM) seconds earlier than without the warp."""
    from simfile.ssc import SSCSimfile
    from simfile.timing import TimingData
    from simfile.timing.engine import TimingEngine

    k, length = case["warp"]
    L = F(D(length))
    R = F(round(L * 48), 48)
    bpm = F(D(case["bpm"]))
    spb = 60 / bpm
    stop = F(D(case["stop"])) if case.get("stop") else None
    text = f"#VERSION:0.83;\n#OFFSET:0;\n#BPMS:0.000={case['bpm']};\n#STOPS:{('0.000=' + case['stop']) if stop else ''};\n#DELAYS:;\n#WARPS:{k / 48:.3f}={length};\n"
    eng = TimingEngine(TimingData(SSCSimfile(string=text)))
    lo, hi = min(L, R) * spb, max(L, R) * spb
    first = k + int(max(L, R) * 48) + 2
    n = 0
    for t in list(range(first, first + 6)) + [first + 48, first + 997]:
        b = F(t, 48)
        base = b * spb + (stop or 0)
        got = eng.time_at(frac_beat(b))
        n += 1
        d = float(base) - got
        need(float(lo) - 1e-9 <= d <= float(hi) + 1e-9,
             f"time_at({b}) = {got!r}: {d!r} s earlier than without the warp, expected between {float(lo)!r} and {float(hi)!r} "
             f"(warp of {length} beats = {float(L * 48):.3f} ticks at beat {F(k, 48)}, {case['bpm']} BPM)")
    for t in range(max(0, k - 3), k + 1):
        b = F(t, 48)
        got = eng.time_at(frac_beat(b))
        n += 1
        need(abs(got - float(b * spb + ((stop or 0) if b > 0 else 0))) <= 1e-9, f"time_at({b}) = {got!r} before a warp at {F(k, 48)}; BPM {case['bpm']}, stop {case.get('stop')}")
    labels = ["unaligned-warp-length"] + (["warp-shorter-than-a-tick"] if L * 48 < 1 else [])
    return Verdict(nontrivial=True, labels=labels, evals=n)


def check(case):
    from simfile.timing.engine import EventTag

    if case.get("kind") == "unaligned":
        return check_unaligned(case)
    if case.get("kind") == "corpus":
        tl = load_corpus_case(case)
        if not in_domain(tl):
            return Verdict(excluded="corpus timing data outside the domain")
    else:
        tl = case["tl"]
    m = Model(tl)
    eng = build_engine(tl)
    extra = [F(n, d) for n, d in case.get("extra", [])]
    probes = m.probe_beats(extra, offgrid=True)
    tags = [EventTag[n] for n in TAG_NAMES]  # documented order; the model's tag number is the position in it
    rank = {t: i for i, t in enumerate(tags)}
    evals = 0
    prev = None
    got_times = {}
    for b in probes:
        B = frac_beat(b)
        for tag in tags:
            got = eng.time_at(B, tag)
            exp = m.time(b, rank[tag])
            evals += 1
            need(
                abs(float(got) - float(exp)) <= TOL,
                f"time_at({b}, {tag.name}) = {float(got)!r}, exact {float(exp)!r} (diff {float(got) - float(exp):.3e}); timeline {tl}",
            )
            if prev is not None:
                need(
                    float(got) >= prev[0] - TOL,
                    f"time decreases: time_at({prev[1]}, {prev[2]}) = {prev[0]!r} > time_at({b}, {tag.name}) = {float(got)!r}; timeline {tl}",
                )
            prev = (float(got), b, tag.name)
            got_times[(b, rank[tag])] = float(got)
        # default tag is STOP
        need(float(eng.time_at(B)) == got_times[(b, 5)], f"time_at({b}) default tag differs from EventTag.STOP; timeline {tl}")
        bp = eng.bpm_at(B)
        evals += 1
        need(
            isinstance(bp, D) and bp == m.bpm_decimal(b),
            f"bpm_at({b}) = {bp!r}, expected {m.bpm_decimal(b)!r}; timeline {tl}",
        )

    # answers must not depend on the order of the queries (no state carried from one call to the next): ask again in
    # reverse order, and with the tags descending
    for b in reversed(probes):
        B = frac_beat(b)
        for tag in reversed(tags):
            evals += 1
            again = float(eng.time_at(B, tag))
            need(
                again == got_times[(b, rank[tag])],
                f"time_at({b}, {tag.name}) answered {got_times[(b, rank[tag])]!r} first and {again!r} when asked again in reverse order; timeline {tl}",
            )

    # metamorphic: offset shift by a dyadic d
    dn = case.get("shift", 3)
    d = F(dn, 8)
    tl2 = dict(tl)
    tl2["offset"] = str(D(tl["offset"] if tl.get("offset") not in (None, "") else "0") + D(dn) / D(8))
    eng2 = build_engine(tl2)
    for b in probes:
        for tag in (tags[0], tags[5], tags[6]):
            evals += 1
            g2 = float(eng2.time_at(frac_beat(b), tag))
            need(
                abs(g2 - (got_times[(b, rank[tag])] - float(d))) <= TOL,
                f"offset+{d} should shift time_at({b},{tag.name}) by -{d}: {got_times[(b, rank[tag])]!r} -> {g2!r}; timeline {tl}",
            )

    # metamorphic: redundant BPM changes (repeat the BPM in force), anywhere incl. inside warps and on pauses
    have = {k for k, _ in tl["bpms"]}
    ins = sorted({k for k in case.get("insert", []) if k not in have and k > 0})
    if ins:
        nb = list(tl["bpms"])
        for k in ins:
            cur = [v for kk, v in tl["bpms"] if kk <= k][-1]
            nb.append([k, cur])
        nb.sort()
        tl3 = dict(tl)
        tl3["bpms"] = nb
        eng3 = build_engine(tl3)
        for b in probes + [F(k, 48) for k in ins]:
            B = frac_beat(b)
            for tag in tags:
                evals += 1
                g3 = float(eng3.time_at(B, tag))
                ref = float(eng.time_at(B, tag))
                need(
                    abs(g3 - ref) <= TOL,
                    f"inserting redundant BPM changes at ticks {ins} changed time_at({b},{tag.name}): {ref!r} -> {g3!r}; timeline {tl}",
                )
            need(eng3.bpm_at(B) == eng.bpm_at(B), f"redundant BPM changes at ticks {ins} changed bpm_at({b}); timeline {tl}")

    # a new engine built from the same TimingData object after the object was edited in place must answer for the
    # edited data (no state may be carried over from the first engine)
    evals += reuse_clause(tl, tags, rank)

    labs = sorted(m.coincidences())
    return Verdict(nontrivial=bool(labs), labels=labs + (["redundant-bpm"] if ins else []) + ["source:" + (tl.get("source") or "ssc")], evals=evals, key=tl)


# -----------------------------------------------------------------------------------------


@st.composite
def s_case(draw):
    tl = draw(G.timelines())
    extra = draw(
        st.lists(
            st.one_of(
                st.tuples(st.integers(-400, 400 * 48), st.just(48)),
                st.tuples(st.integers(-2000, 20000), st.sampled_from([1, 3, 7, 10, 64, 100, 1000])),
            ),
            max_size=6,
        )
    )
    extra = [[n, dd] for n, dd in extra if F(n, dd) <= 400]
    hi = max([k for n in ("bpms", "stops", "delays") for k, _ in tl[n]] + [k + l for k, l in tl["warps"]]) + 48
    insert = draw(st.lists(st.integers(1, hi), max_size=3, unique=True))
    # bias insert points onto event beats (inside warps, on pauses)
    evb = [k for n in ("stops", "delays", "warps") for k, _ in tl[n]]
    if evb and draw(st.booleans()):
        insert += draw(st.lists(st.sampled_from(evb), max_size=2, unique=True))
    return {"tl": tl, "extra": extra, "insert": sorted(set(insert)), "shift": draw(st.sampled_from([-16, -3, 1, 3, 8, 20]))}


def _place_iter(max_events):
    def it(shard, nshards):
        for tl in G.placements_iter(max_events, shard, nshards):
            yield {"tl": tl, "extra": [[-7, 3], [13, 7]], "insert": [12, 60, 84], "shift": 3}

    return it


def corpus_cases():
    import simfile

    out = []
    for path in G.corpus_timelines():
        sf = simfile.open(G.corpus_path(path))
        out.append({"kind": "corpus", "path": path, "chart": None, "extra": [[-9, 2], [1001, 7]], "insert": [24, 480]})
        for i in range(len(sf.charts)):
            out.append({"kind": "corpus", "path": path, "chart": i, "extra": [[355, 3]], "insert": [100]})
    return out


@st.composite
def s_unaligned(draw):
    mode = draw(st.integers(0, 2))
    th = draw(st.integers(11, 20)) if mode == 0 else draw(st.integers(1, 400)) if mode == 1 else draw(st.integers(1, 4000))
    ticks = F(th, 1000) * 48
    if (ticks * 2).denominator == 1 and ticks.denominator != 1:
        th += 1  # keep clear of exact half ticks: ties are not claimed
    return {
        "kind": "unaligned",
        "warp": [draw(st.integers(1, 200)), f"{th // 1000}.{th % 1000:03d}"],
        "bpm": draw(st.sampled_from(["120", "60", "173.2", "240", "1000"])),
        "stop": draw(st.sampled_from([None, None, "0.250"])),
    }


def parts(tier):
    q = tier == "quick"
    return [
        {"name": "unaligned-warp-times", "kind": "hypothesis", "strategy": s_unaligned, "examples": 400 if q else 16 * 2000},
        {"name": "corpus", "kind": "fixed", "cases": corpus_cases},
        {"name": "placements", "kind": "enum", "iter": _place_iter(3 if q else 4), "exhaustive": True},
        {"name": "random", "kind": "hypothesis", "strategy": s_case, "examples": 1500 if q else 16 * 10000},
    ]
