"""
C03 - Loading builds exactly the documented object, through every entry point.

Oracle: vf.model_load (the documented rules on top of the trusted tokenizer), compared with every public entry
point; plus the stray-text relations.
"""
import io
import os
import shutil
import tempfile

from hypothesis import strategies as st

from .. import gen_msd as GM
from .. import model_load as R
from ..core import Verdict, Violation

ID = "C03"
LEVEL = "exploration"
RULE = (
    "texts: (a) Hypothesis documents built from segments (parameters with keys in any letter case, known/unknown/"
    "duplicate/empty keys, 0..8 components drawn from MSD metacharacters, escapes, comments, LF/CRLF, unterminated "
    "parameters, NOTES with fewer/exactly/more than six components, NOTEDATA sections, parameters after them; stray text, "
    "blanks, comments between terminated parameters; leading BOM/stray/comment), (b) chart documents starting with "
    "NOTEDATA for SSCChart.from_str, (c) component lists for SMChart.from_str/from_msd, (d) the corpus files and "
    "random truncations/splices/duplications/insertions of them; each x strict in {True, False} x entry points {loads, "
    "load(StringIO), load(iterator of lines), SMSimfile/SSCSimfile(string=|file=StringIO|file=iterator)} and, on every "
    "fourth case, files named x.sm/x.ssc/x.SM/x.Ssc/x.txt/x.sm.bak/x.ssc.old/noext through load(open file), "
    "simfile.open(path) and the class constructors with the open file. Every entry point call is one evaluation. "
    "Non-trivial = text with a lower-case or duplicate key, key-only parameter, multi-component parameter, parameter "
    "after NOTES/NOTEDATA, stray text, missing ';', BOM, comment or escape; distinct = distinct case JSON. Texts ending in "
    "an unpaired backslash are completed with a line break (known finding of msdparser, probed separately)"
)
RULE += " " + 'Added after the seeding rounds: keys written with a backslash escape inside them (also as first key: VER\\\\SION), whitespace other than blank/tab/CR/LF at the edges of components, U+FEFF inside components.'
RULE += " " + 'Round 6: file objects whose .name is an int (os.fdopen) or a bytes path without a simfile suffix - the format comes from the content.'
RULE += " " + "Round 7: simfile.open(name, encoding='utf-8') beside simfile.open(name); alias keys next to their standard keys (BGCHANGES + ANIMATIONS, STOPS + FREEZES)."
ASSUMPTIONS = [
    "msdparser.parse_msd is the trusted tokenizer (also for which text is stray)",
    "files are read in text mode with universal newlines, so file entry points are compared with the newline-translated text",
]
FILE_NAMES = ["x.sm", "x.ssc", "x.SM", "x.Ssc", "x.txt", "x.sm.bak", "x.ssc.old", "noext", "sm", "a.ssc.sm", ".sm", ".ssc", ".SSC", "a.sm.ssc", "x.ssc ", "x.smx"]


def need(c, msg):
    if not c:
        raise Violation(msg)


def short(t, n=240):
    return repr(t if len(t) <= n else t[:n] + "...")


def same(got, exp, what, text, strict):
    need(got == exp, f"{what} (strict={strict}): got {fmt_res(got)}, documented rules give {fmt_res(exp)}; text {short(text)}")


def fmt_res(r):
    s = repr(r)
    return s if len(s) < 700 else s[:700] + "..."


def features(text, doc):
    from msdparser import parse_msd

    labs = set()
    try:
        params = list(parse_msd(string=text, ignore_stray_text=True))
    except Exception:  # noqa
        return {"tokenizer-error"}
    keys = [p.key for p in params]
    up = [k.upper() for k in keys]
    if any(k != k.upper() for k in keys):
        labs.add("lower-case-key")
    if len(set(up)) != len(up):
        labs.add("duplicate-key")
    if any(len(p.components) == 1 for p in params):
        labs.add("key-only")
    if any(len(p.components) > 2 for p in params):
        labs.add("multi-component")
    for marker in ("NOTES", "NOTEDATA"):
        if marker in up and up.index(marker) < len(up) - 1:
            labs.add("param-after-" + marker.lower())
    if any(k in ("ATTACKS", "DISPLAYBPM") for k in up):
        labs.add("multi-value-key")
    if "\\" in text:
        labs.add("escape")
    if "//" in text:
        labs.add("comment")
    if text.startswith("﻿"):
        labs.add("bom")
    if doc is not None:
        if GM.has_stray(doc):
            labs.add("stray-text")
        if any(k == "param" and not t.rstrip("\r\n").endswith(";") for k, t in doc["segs"]):
            labs.add("missing-semicolon")
    return labs


def check_text(text, strict, doc, files, labels):
    """returns number of entry point evaluations"""
    import simfile
    from msdparser import parse_msd
    from simfile.sm import SMSimfile
    from simfile.ssc import SSCSimfile

    evals = 0
    exp = R.ref_load(text, strict)
    labels.add("outcome:" + (exp[1] if exp[0] == "err" else exp[1]))
    lines = text.splitlines(True)
    for name, fn in (
        ("loads(text)", lambda: simfile.loads(text, strict=strict)),
        ("load(StringIO)", lambda: simfile.load(io.StringIO(text), strict=strict)),
        ("load(iterator of lines)", lambda: simfile.load(iter(lines), strict=strict)),
    ):
        same(R.observe(fn), exp, name, text, strict)
        evals += 1
    if not strict:
        need(not (exp[0] == "err" and exp[1] == "MSDParserError"), "tokenizer raised MSDParserError with ignore_stray_text")
    for cls, fmt in ((SMSimfile, "sm"), (SSCSimfile, "ssc")):
        e = R.ref_load(text, strict, fmt)
        for name, fn in (
            (f"{cls.__name__}(string=)", lambda: cls(string=text, strict=strict)),
            (f"{cls.__name__}(file=StringIO)", lambda: cls(file=io.StringIO(text), strict=strict)),
            (f"{cls.__name__}(file=iterator)", lambda: cls(file=iter(lines), strict=strict)),
            # an iterator may yield empty strings among its lines (a filter that blanks lines out): they add nothing
            (f"{cls.__name__}(file=iterator with an empty string among the lines)", lambda: cls(file=iter(lines[: len(lines) // 2] + [""] + lines[len(lines) // 2 :]), strict=strict)),
        ):
            same(R.observe(fn), e, name, text, strict)
            evals += 1

    # stray-text relations
    if doc is not None and not strict:
        clean = GM.render(doc, drop_stray=True)
        e_clean = R.ref_load(clean, True)
        if e_clean != exp:
            labels.add("segment-model-mismatch")  # the generator's idea of 'stray' disagrees with the tokenizer: not judged
        else:
            same(R.observe(lambda: simfile.loads(clean, strict=True)), exp, "loads(text without its stray text, strict=True)", clean, True)
            evals += 1
            labels.add("stray-removed-compared")
    if doc is not None and strict:
        if GM.has_stray(doc):
            if exp == ("err", "MSDParserError"):
                labels.add("strict-rejects-stray")
        else:
            if exp == ("err", "MSDParserError"):
                labels.add("segment-model-mismatch")

    if files:
        d = tempfile.mkdtemp(prefix="vf-")
        try:
            ttext = text.replace("\r\n", "\n").replace("\r", "\n")
            for fname in FILE_NAMES:
                p = os.path.join(d, fname)
                with open(p, "w", encoding="utf-8", newline="") as f:
                    f.write(text)
                fmt = R.format_for_name(fname)
                e = R.ref_load(ttext, strict, fmt)

                def via_load():
                    with open(p, "r", encoding="utf-8") as f:
                        return simfile.load(f, strict=strict)

                same(R.observe(via_load), e, f"load(open file named {fname!r})", ttext, strict)
                same(R.observe(lambda: simfile.open(p, strict=strict)), e, f"simfile.open({fname!r})", ttext, strict)
                same(R.observe(lambda: simfile.open(p, strict=strict, encoding="utf-8")), e, f"simfile.open({fname!r}, encoding='utf-8')", ttext, strict)
                evals += 3
                for cls, cfmt in ((SMSimfile, "sm"), (SSCSimfile, "ssc")):
                    ec = R.ref_load(ttext, strict, cfmt)

                    def via_cls():
                        with open(p, "r", encoding="utf-8") as f:
                            return cls(file=f, strict=strict)

                    same(R.observe(via_cls), ec, f"{cls.__name__}(file=open file named {fname!r})", ttext, strict)
                    evals += 1
            # file objects whose .name is not a str at all: an int (os.fdopen, tempfile.TemporaryFile) or a bytes path
            # without a simfile suffix - "whatever its name": the format comes from the content
            p = os.path.join(d, "plain.txt")
            with open(p, "w", encoding="utf-8", newline="") as f:
                f.write(text)
            e = R.ref_load(ttext, strict)

            def via_fd():
                with os.fdopen(os.open(p, os.O_RDONLY), "r", encoding="utf-8") as f:
                    return simfile.load(f, strict=strict)

            def via_bytes_path():
                with open(os.fsencode(p), "r", encoding="utf-8") as f:
                    return simfile.load(f, strict=strict)

            same(R.observe(via_fd), e, "load(file object from os.fdopen, name is an int)", ttext, strict)
            same(R.observe(via_bytes_path), e, "load(file opened by a bytes path 'plain.txt')", ttext, strict)
            evals += 2
            labels.add("file-entry-points")
        finally:
            shutil.rmtree(d, ignore_errors=True)
    return evals


def check(case):
    from msdparser import MSDParserError
    from simfile.sm import SMChart
    from simfile.ssc import SSCChart

    kind = case["kind"]
    labels = set()
    if kind == "doc":
        text = GM.render(case["doc"])
        evals = 0
        for strict in (True, False):
            evals += check_text(text, strict, case["doc"], case.get("files", False), labels)
        labels |= features(text, case["doc"])
        nontrivial = bool(labels & {"lower-case-key", "duplicate-key", "key-only", "multi-component", "param-after-notes", "param-after-notedata", "stray-text", "missing-semicolon", "bom", "comment", "escape"})
        return Verdict(nontrivial=nontrivial, labels=sorted(labels), evals=evals)

    if kind == "corpus_mut":
        text = GM.corpus_mut_text(case)
        evals = 0
        for strict in (True, False):
            evals += check_text(text, strict, None, case.get("files", False), labels)
        labels |= features(text, None)
        labels.add("corpus-mutation" if case["ops"] else "corpus-file")
        return Verdict(nontrivial=True, labels=sorted(labels), evals=evals)

    if kind == "raw":
        text = case["text"]
        evals = 0
        for strict in (True, False):
            evals += check_text(text, strict, None, case.get("files", False), labels)
        labels |= features(text, None)
        return Verdict(nontrivial=True, labels=sorted(labels), evals=evals)

    if kind == "sscchart":
        text = GM.render(case["doc"])
        evals = 0
        for strict in (True, False):
            exp = R.ref_ssc_chart(text, strict)
            if exp == ("err", "empty"):
                return Verdict(excluded="empty chart text")
            try:
                c = SSCChart.from_str(text, strict=strict)
                got = ("ok", [[k, v] for k, v in c.items()])
            except MSDParserError:
                got = ("err", "MSDParserError")
            except ValueError:
                got = ("err", "ValueError")
            need(got == exp, f"SSCChart.from_str(strict={strict}): got {fmt_res(got)}, documented rules give {fmt_res(exp)}; text {short(text)}")
            evals += 1
            if exp[0] == "ok":
                labels.add("chart-loaded")
                if any(k in ("NOTES", "NOTES2") for k, _ in exp[1]):
                    labels.add("chart-ends-at-notes")
        labels |= features(text, case["doc"])
        return Verdict(nontrivial=True, labels=sorted(labels), evals=evals)

    if kind == "smchart":
        comps = case["comps"]
        evals = 0
        for how in ("from_msd", "from_str"):
            if how == "from_str" and any(":" in c for c in comps):
                continue
            try:
                c = SMChart.from_msd(list(comps)) if how == "from_msd" else SMChart.from_str(":".join(comps))
                got = ("ok", [c[k] for k in ("STEPSTYPE", "DESCRIPTION", "DIFFICULTY", "METER", "RADARVALUES", "NOTES")], list(c.extradata) if c.extradata else None,
                       [c.stepstype, c.description, c.difficulty, c.meter, c.radarvalues, c.notes], list(c.keys()))
            except ValueError:
                got = ("err", "ValueError")
            if len(comps) < 6:
                exp = ("err", "ValueError")
            else:
                f = [x.strip() for x in comps[:6]]
                exp = ("ok", f, (list(comps[6:]) or None), f, ["STEPSTYPE", "DESCRIPTION", "DIFFICULTY", "METER", "RADARVALUES", "NOTES"])
            need(got == exp, f"SMChart.{how}({comps!r}): got {fmt_res(got)}, documented rules give {fmt_res(exp)}")
            evals += 1
        labels.add(f"smchart:{min(len(comps), 8)}-components")
        return Verdict(nontrivial=True, labels=sorted(labels), evals=evals)
    raise Violation("unknown case kind")


# -----------------------------------------------------------------------------------------------


def s_doc():
    return st.builds(lambda d, f: {"kind": "doc", "doc": d, "files": f == 0}, GM.documents(), st.integers(0, 3))


def s_straddle():
    def build(seg, d):
        d = {"segs": [seg] + [x for x in d["segs"] if x[0] != "bom"]}
        return {"kind": "doc", "doc": d, "files": True}

    return st.builds(build, GM.straddle_segment(), GM.documents(max_params=3))


def s_chartdoc():
    return st.builds(lambda d: {"kind": "sscchart", "doc": d}, GM.documents(max_params=7, chart_doc=True))


def s_smchart():
    c = st.one_of(GM.comp, GM.comp, st.sampled_from(["", " x ", "\n     dance-single", "\n0000\n0000\n", "a:b", "\t"]))
    return st.builds(lambda comps: {"kind": "smchart", "comps": comps}, st.lists(c, max_size=9))


def s_mut():
    return st.builds(lambda m, f: dict(m, files=(f == 0)), GM.corpus_mutations(), st.integers(0, 7))


def fixed_cases():
    return [{"kind": "corpus_mut", "path": rel, "head": None, "ops": [], "files": True} for rel in GM.corpus_texts()]


def parts(tier):
    q = tier == "quick"
    from ..fuzzpart import make_part

    extra = [] if q else [make_part(ID, 60000)]
    return extra + [
        {"name": "corpus", "kind": "fixed", "cases": fixed_cases},
        {"name": "documents", "kind": "hypothesis", "strategy": s_doc, "examples": 2500 if q else 16 * 15000},
        {"name": "buffer-straddling-files", "kind": "hypothesis", "strategy": s_straddle, "examples": 160 if q else 16 * 400},
        {"name": "ssc-chart-texts", "kind": "hypothesis", "strategy": s_chartdoc, "examples": 1200 if q else 16 * 6000},
        {"name": "sm-chart-components", "kind": "hypothesis", "strategy": s_smchart, "examples": 800 if q else 16 * 4000},
        {"name": "corpus-mutations", "kind": "hypothesis", "strategy": s_mut, "examples": 400 if q else 16 * 2500},
    ]
