"""
C05 - mutate saves exactly the edited simfile, in the encoding it was read in; encoding detection of
open / open_with_detected_encoding.

Oracle: Python's codecs (through io.TextIOWrapper) decide what "decodes" means; the expected object is the file
name's class applied to the decoded text (C03 covers the loader); files are compared through directory snapshots
(name -> bytes) and by parsing decoded text, bytes only where the property says bytes.
"""
from hypothesis import strategies as st

from .. import fsfault as ff
from ..core import Verdict, Violation

ID = "C05"
LEVEL = "exploration"
RULE = (
    "Hypothesis draws plain-data cases: a small MSD document (ASCII keys in varied spelling, duplicate / key-only / "
    "multi-component / unterminated parameters, comments, BOM, SM NOTES parameters with extra components, SSC NOTEDATA "
    "sections with NOTES or NOTES2 and parameters after the note data, LF or CRLF) over the repertoire of one of "
    "utf-8/cp1252/cp932/cp949 (incl. characters that force that code page to be detected and texts valid under several), "
    "encoded with it, or a raw byte string; x {.sm,.ssc} x strict (stray text only with strict=False) x try_encodings "
    "{default, permutation, sublist, list with latin-1/ascii/utf-8-sig, single explicit encoding through open(encoding=)} "
    "x {native temp dir with the default filesystem, MemoryFS} x output name {none, other; pre-existing or not} x backup "
    "name {none, other, equal to input, equal to output} x bystander files x an edit script of 0..5 operations "
    "(set/del by key and attribute, key-only values, add/delete/edit/reorder charts, extradata) whose values carry "
    "alternatives so that the one encodable in the DETECTED encoding is used.  Non-trivial: non-ASCII body, or detected "
    "encoding != utf-8, or >= 2 edits, or an output/backup configuration, or the error clause.  Distinct = distinct "
    "canonical JSON of the case.  Kept out by construction (repair) and counted when left over: msdparser dependency "
    "gap, texts the reference loader rejects, simfiles the detected encoding cannot represent, bare carriage returns."
)
RULE += " " + "Added after the seeding rounds: keys that need MSD escaping in files and edit scripts; bodies in which a double-byte character with trail byte 0x5C stands in front of a separator (different component counts under cp1252 and cp932); when the text decoded under the first decoding encoding is itself rejected by the parser, opening must fail with the parser's / loader's error and change nothing (it used to be excluded)."
RULE += " " + "Round 6: multi-value parameters with an empty first component in files ('#DISPLAYBPM::180;') and edits that set ATTACKS / DISPLAYBPM to a value starting with a colon."
ASSUMPTIONS = [
    "CPython codecs / io.TextIOWrapper define what 'decodes' means",
    "the loader applied to a decoded string is the definition of the loaded simfile (covered by C03)",
    "text-mode newline translation belongs to the filesystem object (native: universal newlines, PyFilesystem: none); either reading of the input is accepted, written files are compared without translation",
    "msdparser tokenizer; PyFilesystem2 MemoryFS",
]

EXTRA_ENCODINGS = ["latin-1", "ascii", "utf-8-sig"]


def need(cond, msg):
    if not cond:
        raise Violation(msg)


def _names(case):
    suffix = case["suffix"]
    inp = "song" + suffix
    out = ("out" + suffix) if case["out"] else None
    bak_mode = case["bak"]
    if bak_mode == "other":
        bak = inp + case.get("bak_ext", ".old")  # .old / .tmp / .bak / ~ : names a save routine might use itself
    elif bak_mode == "input":
        bak = inp
    elif bak_mode == "output":
        bak = out  # None when there is no output name: then no backup is requested
    else:
        bak = None
    return inp, out, bak


def _describe(case):
    return (
        f"file {case['suffix']} on {case['fs']} fs, data={bytes.fromhex(case['data'])[:80]!r}, try_encodings={case['encs']}, "
        f"strict={case['strict']}, out={case['out']}, bak={case['bak']}, script={case['script']!r}"
    )


def _noteless(picture):
    """an SSC chart holding neither NOTES nor NOTES2: loadable, but serializing it is a KeyError"""
    return any("ssc" in ch and not any(k in ("NOTES", "NOTES2") for k, _ in ch["ssc"]) for ch in picture["charts"])


def _load_candidates(case, uni, raw):
    """pictures of the simfile the decoded text loads to (with and without newline translation)"""
    from msdparser import MSDParserError

    cands = []
    rejected = 0
    for text in ([uni] if uni == raw else [uni, raw]):
        try:
            cands.append(ff.canon(ff.parse_reference(case["suffix"], text, case["strict"])))
        except (MSDParserError, ValueError):
            rejected += 1
    return cands, rejected


def _parse_written(case, data, enc, what, desc):
    from msdparser import MSDParserError

    try:
        text = ff.decode_with(data, enc)
    except UnicodeDecodeError as e:
        raise Violation(f"{what} does not decode under the detected encoding {enc}: {e}; bytes {ff.short(data)}; {desc}")
    try:
        return ff.canon(ff.parse_reference(case["suffix"], text, True))
    except (MSDParserError, ValueError) as e:
        raise Violation(f"{what} does not parse: {type(e).__name__}: {e}; text {text[:200]!r}; {desc}")


def check(case):
    import simfile

    data = bytes.fromhex(case["data"])
    desc = _describe(case)
    encs = case["encs"]
    tried = list(encs) if encs is not None else list(ff.MAIN_ENCODINGS)
    inp, out, bak = _names(case)
    d = ff.make_dir(case["fs"])
    try:
        files = {inp: data}
        if case["bystanders"]:
            files["other" + case["suffix"]] = b"#TITLE:bystander;\n"
            # neighbours carrying names a save routine might pick for its own temporary files
            for n in ff.tempish_names(inp, out):
                if n not in (inp, out, bak):
                    files[n] = b"#TITLE:do not touch " + n.encode() + b";\n"
            files["notes.txt"] = b"\xff\xfe not a simfile"
        if out and case["pre_out"]:
            files[out] = b"#TITLE:" + b"old output " * 40 + b";\n"
        if bak and bak not in (inp, out) and case["pre_bak"]:
            files[bak] = b"#TITLE:" + b"old backup " * 40 + b";\n"
        for n, b in files.items():
            d.write(n, b)

        fskw = d.fs_kwargs()
        kw = dict(fskw)
        if encs is not None:
            kw["try_encodings"] = list(encs)
        if not case["strict"]:
            kw["strict"] = False
        openkw = dict(fskw)
        if not case["strict"]:
            openkw["strict"] = False
        use_open = encs is None or len(encs) == 1
        if encs is not None and len(encs) == 1:
            openkw["encoding"] = encs[0]
        p_in = d.path(inp)
        p_out = d.path(out) if out else None
        p_bak = d.path(bak) if bak else None
        cls = ff.simfile_class(case["suffix"])
        labels = ["fs:" + case["fs"], "suffix:" + case["suffix"], "kind:" + case["kind"]]
        if encs is None:
            labels.append("encs:default")
        elif len(encs) == 1:
            labels.append("encs:explicit-single")
        else:
            labels.append("encs:custom-list")

        before = d.snapshot()
        ref = ff.ref_decode(data, tried)

        # ---------------------------------------------------------------- error clause
        if ref is None:
            evals = 0
            calls = [("open_with_detected_encoding", lambda: simfile.open_with_detected_encoding(p_in, **kw))]
            if use_open:
                calls.append(("open", lambda: simfile.open(p_in, **openkw)))

            def run_mutate():
                with simfile.mutate(p_in, output_filename=p_out, **kw):
                    pass

            calls.append(("mutate", run_mutate))
            for name, fn in calls:
                try:
                    fn()
                except UnicodeDecodeError:
                    evals += 1
                    continue
                raise Violation(f"{name} did not raise UnicodeDecodeError although no tried encoding decodes the file; {desc}")
            after = d.snapshot()
            need(after == before, f"files {ff.diff_names(before, after)} changed although the input could not be decoded; {desc}")
            return Verdict(nontrivial=True, labels=labels + ["undecodable"], evals=evals)

        enc, uni, raw = ref
        labels.append("detected:" + enc)
        if case.get("enc_used"):
            labels.append("encoded-as:" + case["enc_used"])
            if case["enc_used"] != enc:
                labels.append("detected-other-than-encoded")
        decodable_under = [e for e in ff.MAIN_ENCODINGS if ff.ref_decode(data, [e])]
        if len(decodable_under) > 1:
            labels.append("valid-under-several")
        nonascii = any(b >= 0x80 for b in data)
        if nonascii:
            labels.append("nonascii-body")

        cands, rejected = _load_candidates(case, uni, raw)
        if not cands:
            # the text decoded under the first decoding encoding is itself rejected by the parser: opening must fail the
            # same way - not report a later encoding under which the bytes happen to parse - and change nothing
            from msdparser import MSDParserError

            calls = [("open_with_detected_encoding", lambda: simfile.open_with_detected_encoding(p_in, **kw))]
            if use_open:
                calls.append(("open", lambda: simfile.open(p_in, **openkw)))

            def run_mutate2():
                with simfile.mutate(p_in, output_filename=p_out, backup_filename=(p_bak if bak not in (inp, out) else None), **kw):
                    pass

            calls.append(("mutate", run_mutate2))
            evals = 0
            for name, fn in calls:
                try:
                    r = fn()
                except UnicodeDecodeError as e:
                    raise Violation(f"{name} raised UnicodeDecodeError although {enc} decodes the whole file: {e}; {desc}")
                except (MSDParserError, ValueError):
                    evals += 1
                    continue
                got_enc = r[1] if isinstance(r, tuple) else "?"
                raise Violation(f"{name} succeeded (encoding {got_enc!r}) although the file decodes under {enc}, the first of {tried} to decode it, and that text is rejected by the parser; {desc}")
            need(d.snapshot() == before, f"files {ff.diff_names(before, d.snapshot())} changed although loading the input failed; {desc}")
            return Verdict(nontrivial=True, labels=labels + ["decoded-text-rejected-by-parser"], evals=evals)
        if uni != raw:
            labels.append("body-has-CR")

        # ---------------------------------------------------------------- detection and loading
        got, genc = simfile.open_with_detected_encoding(p_in, **kw)
        need(genc == enc, f"open_with_detected_encoding reports {genc!r}, first decoding encoding of {tried} is {enc!r}; {desc}")
        need(type(got) is cls, f"open_with_detected_encoding returned a {type(got).__name__}, expected {cls.__name__}; {desc}")
        need(ff.canon(got) in cands, f"open_with_detected_encoding loaded {ff.canon(got)!r}, decoded text loads to {cands[0]!r}; {desc}")
        evals = 1
        if use_open:
            got2 = simfile.open(p_in, **openkw)
            need(type(got2) is cls and ff.canon(got2) in cands, f"open() loaded {ff.canon(got2)!r}, expected {cands[0]!r}; {desc}")
            evals += 1
        need(d.snapshot() == before, f"opening changed files {ff.diff_names(before, d.snapshot())}; {desc}")

        # ---------------------------------------------------------------- clashing backup name
        if bak is not None and bak in (inp, out):
            entered = False
            try:
                with simfile.mutate(p_in, output_filename=p_out, backup_filename=p_bak, **kw) as sf:
                    entered = True
                    raise simfile.CancelMutation
            except ValueError:
                if entered:
                    raise
                after = d.snapshot()
                need(after == before, f"clashing backup name refused but files {ff.diff_names(before, after)} changed; {desc}")
                return Verdict(nontrivial=True, labels=labels + ["backup-clash:" + case["bak"]], evals=evals + 1)
            raise Violation(f"backup_filename equal to the {case['bak']} name was not refused with ValueError; {desc}")

        # ---------------------------------------------------------------- the mutate block
        script = case["script"]
        excluded = None
        with simfile.mutate(p_in, output_filename=p_out, backup_filename=p_bak, **kw) as sf:
            need(type(sf) is cls, f"mutate yielded a {type(sf).__name__}, expected {cls.__name__}; {desc}")
            entry = ff.canon(sf)
            need(entry in cands, f"mutate yielded {entry!r}, decoded text loads to {cands[0]!r}; {desc}")
            for op in script:
                ff.apply_edit(sf, op, enc)
            exit_ = ff.canon(sf)
            if _noteless(exit_) or _noteless(entry):
                excluded = "SSC chart without note data (cannot be serialized: excluded as in C04, an unserialisable state in C06)"
            elif ff.in_gap(exit_) or (bak and ff.in_gap(entry)):
                excluded = "msdparser dependency gap (left over after repair)"
            elif not ff.picture_encodable(exit_, enc) or (bak and not ff.picture_encodable(entry, enc)):
                excluded = "simfile not representable in the detected encoding (C06's subject)"
            elif ff.picture_has_bare_cr(exit_) or (bak and ff.picture_has_bare_cr(entry)):
                excluded = "bare carriage return in a value"
            if excluded:
                raise simfile.CancelMutation
        if excluded:
            return Verdict(excluded=excluded)

        after = d.snapshot()
        target = out or inp
        allowed = {target} | ({bak} if bak else set())
        for n in sorted(set(before) | set(after)):
            if n not in allowed:
                need(
                    before.get(n) == after.get(n),
                    f"file {n!r} was {'created' if n not in before else 'changed'} by mutate (allowed: {sorted(allowed)}): {ff.short(before.get(n))} -> {ff.short(after.get(n))}; {desc}",
                )
        need(target in after, f"output file {target!r} does not exist after a normal exit; {desc}")
        written = _parse_written(case, after[target], enc, f"output file {target!r}", desc)
        need(written == exit_, f"output file {target!r} (decoded as {enc}) parses to {written!r}, simfile at block exit was {exit_!r}; {desc}")
        evals += 1
        if bak:
            need(bak in after, f"backup file {bak!r} was not written; {desc}")
            backed = _parse_written(case, after[bak], enc, f"backup file {bak!r}", desc)
            need(backed == entry, f"backup file {bak!r} parses to {backed!r}, simfile at block entry was {entry!r}; {desc}")
            evals += 1
            labels.append("backup")
        if out:
            need(after[inp] == before[inp], f"input file changed although an output name was given; {desc}")
            labels.append("output-name")
            if case["pre_out"]:
                labels.append("output-preexisting")

        # ---------------------------------------------------------------- idempotence of a second, no-op mutate
        ref2 = ff.ref_decode(after[target], tried)
        if ref2 is not None and ref2[0] == enc:
            with simfile.mutate(d.path(target), **kw):
                pass
            again = d.snapshot()
            need(
                again.get(target) == after[target],
                f"a no-op mutate on the file mutate wrote changed its bytes: {ff.short(after[target], 200)} -> {ff.short(again.get(target), 200)}; {desc}",
            )
            need(
                all(again.get(n) == after.get(n) for n in set(again) | set(after)),
                f"a no-op mutate changed other files {ff.diff_names(after, again)}; {desc}",
            )
            evals += 1
            labels.append("idempotence-checked")
        else:
            labels.append("rewritten-file-detected-differently")

        n_ops = len(script)
        labels.append("edits:" + ("0" if n_ops == 0 else "1" if n_ops == 1 else "2+"))
        if exit_["charts"]:
            labels.append("has-charts")
        if any(v is None for _, v in exit_["items"]) or any(v is None for ch in exit_["charts"] if "ssc" in ch for _, v in ch["ssc"]):
            labels.append("key-only-value")
        if exit_ != entry:
            labels.append("edited")
        nontrivial = nonascii or enc != "utf-8" or n_ops >= 2 or bool(out) or bool(bak)
        return Verdict(nontrivial=nontrivial, labels=labels, evals=evals)
    finally:
        d.close()


# --------------------------------------------------------------------------------------------------------------
# generators

RAW_BYTES = [b"#", b":", b";", b"A", b"b", b"\n", b"\r\n", b" ", b"\x81", b"\x8d", b"\x90", b"\x9d", b"\xe9", b"\xb5", b"\xb0\xa1",
             b"\x83\x5c", b"\x81\x40", b"\xc3\xa9", b"\xe3\x83\x9f", b"\xff", b"\xfe", b"\xa1\xfe", b"\x8d\xfe", b"\xef\xbb\xbf", b"\x80", b"\xc3"]


DANGLING_TAILS = [b"\xe9", b"\xc3", b"\xe3\x83", b"\xf0\x9f\x98", b"\x83", b"\xb0", b"\xe0", b"\x95", b"caf\xe9", b"\x8f"]


@st.composite
def s_encs(draw):
    mode = draw(st.integers(0, 9))
    if mode <= 3:
        return None
    if mode == 4:
        return list(draw(st.permutations(ff.MAIN_ENCODINGS)))
    if mode == 5:
        return draw(st.lists(st.sampled_from(ff.MAIN_ENCODINGS), min_size=1, max_size=3, unique=True))
    if mode == 6:
        return [draw(st.sampled_from(ff.MAIN_ENCODINGS + ["latin-1", "ascii"]))]
    if mode == 7:
        return draw(st.lists(st.sampled_from(ff.MAIN_ENCODINGS + EXTRA_ENCODINGS), min_size=1, max_size=4, unique=True))
    if mode == 8:
        return [draw(st.sampled_from(["cp932", "cp949"])), "cp1252"]
    return ["utf-8"]


@st.composite
def s_case(draw):
    suffix = draw(st.sampled_from([".sm", ".ssc"]))
    sel = draw(st.integers(0, 13))
    kind = "raw" if sel == 0 else "dangling" if sel == 1 else "straddle" if sel == 2 else "trailbyte" if sel == 3 else "doc"
    if kind == "raw":
        data = b"".join(draw(st.lists(st.sampled_from(RAW_BYTES), min_size=1, max_size=14))) + draw(st.sampled_from([b"\n", b"\n", b""]))
        if data.endswith(b"\\"):
            data += b"\n"  # a text ending in an unpaired backslash trips msdparser's own assertion (known finding of C03)
        strict = False
        enc_used = None
    elif kind == "dangling":
        # a well-formed body whose very last bytes are a multi-byte sequence cut short by the end of the file under an
        # earlier-tried encoding (a lead byte without its trail), while a later encoding may decode the whole file
        enc_used = draw(st.sampled_from(["cp1252", "cp1252", "cp932", "cp949"]))
        strict = True
        text = draw(ff.s_document(enc_used, suffix, keyonly=False, stray=False, max_props=2, max_charts=0))
        tail = draw(st.sampled_from(DANGLING_TAILS))
        data = text.encode(enc_used) + (b"" if text.endswith(("\n", "\r")) or not text else b"\n") + b"#LASTKEY:x" + tail
        kind = "raw"
    elif kind == "trailbyte":
        # a double-byte character whose trail byte is 0x5C (a backslash in the single-byte code pages) right in front of a
        # ':' or ';': under cp1252 the separator is escaped, under cp932 it is not, so the same bytes have a different
        # number of components under the two encodings (fewer than six NOTES components: the loader raises ValueError)
        enc_used = None
        strict = True
        lead = draw(st.sampled_from([b"\x83\x5c", b"\x95\x5c", b"\x8f\x5c", b"\x83\x5c"]))
        where = draw(st.integers(0, 3))
        f = [b"dance-single", b"desc", b"Hard", b"1", b"0,0"]
        if where < 3:
            f[draw(st.integers(0, 4))] += lead
            data = b"#TITLE:x;\n#NOTES:" + b":".join(b"\n     " + x for x in f) + b":\n0000\n0000\n;\n"
        else:
            data = b"#TITLE:t" + lead + b";\n#ARTIST:a;\n"
        kind = "raw"
    elif kind == "straddle":
        # a UTF-8 file longer than a typical I/O buffer in which a multi-byte character straddles (or starts just before)
        # the 4096 / 8192 / 16384 byte boundary: detection must still decode the *whole* file
        from .. import gen_msd as GM

        enc_used = "utf-8"
        strict = True
        first = draw(GM.straddle_segment())[1]
        text = first + draw(ff.s_document(enc_used, suffix, keyonly=False, stray=False, max_props=2, max_charts=1)).lstrip("\ufeff")
        data = text.encode("utf-8")
        kind = "doc"
    else:
        enc_used = draw(st.sampled_from(ff.MAIN_ENCODINGS))
        strict = draw(st.integers(0, 4)) != 0
        text = draw(ff.s_document(enc_used, suffix, keyonly=True, stray=not strict))
        data = text.encode(enc_used)
    out = draw(st.booleans())
    bak = draw(st.sampled_from(["none", "none", "other", "other", "other", "input", "output"]))
    return {
        "kind": kind,
        "data": data.hex(),
        "enc_used": enc_used,
        "suffix": suffix,
        "strict": strict,
        "encs": draw(s_encs()),
        "fs": draw(st.sampled_from(["native", "mem"])),
        "out": out,
        "bak": bak,
        "pre_out": draw(st.booleans()),
        "pre_bak": draw(st.booleans()),
        "bystanders": draw(st.booleans()),
        "bak_ext": draw(st.sampled_from([".old", ".old", ".tmp", ".bak", "~", ".new"])),
        "script": draw(ff.s_script(suffix, max_ops=5)),
    }


@st.composite
def s_straddle_case(draw):
    """dedicated part: UTF-8 bodies with a multi-byte character on a buffer-size boundary, default and custom encodings"""
    from .. import gen_msd as GM

    suffix = draw(st.sampled_from([".sm", ".ssc"]))
    first = draw(GM.straddle_segment())[1]
    text = first + draw(ff.s_document("utf-8", suffix, keyonly=False, stray=False, max_props=2, max_charts=1)).lstrip("\ufeff")
    return {
        "kind": "doc", "data": text.encode("utf-8").hex(), "enc_used": "utf-8", "suffix": suffix, "strict": True,
        "encs": draw(st.sampled_from([None, None, ["utf-8", "cp1252"], ["utf-8", "cp932", "cp949"], ["cp949", "utf-8", "cp1252"]])),
        "fs": draw(st.sampled_from(["native", "mem"])), "out": draw(st.booleans()), "bak": draw(st.sampled_from(["none", "other"])),
        "pre_out": False, "pre_bak": False, "bystanders": False, "script": draw(ff.s_script(suffix, max_ops=2)),
    }


def _fixed_cases():
    """the documentation's examples and the repository's corpus files, through the same checker"""
    import os

    from ..core import REPO_ROOT

    cases = []
    for enc, text in (("utf-8", "#TITLE:テスト;\n"), ("cp1252", "#TITLE:café;\n"), ("cp932", "#TITLE:、テスト;\n"), ("cp949", "#TITLE:겖테스트;\n")):
        for fs_kind in ("native", "mem"):
            cases.append(
                {
                    "kind": "doc", "data": text.encode(enc).hex(), "enc_used": enc, "suffix": ".sm", "strict": True, "encs": None,
                    "fs": fs_kind, "out": False, "bak": "other", "pre_out": False, "pre_bak": False, "bystanders": True,
                    "script": [["attr", "title", ["edited"]], ["set", "SUBTITLE", ["ミ", "é", "가", "x"]]],
                }
            )
    for rel in ("testdata/Springtime/Springtime.ssc", "testdata/Robotix/Robotix.sm", "testdata/nekonabe/nekonabe.sm", "testdata/L9/L9.ssc"):
        p = os.path.join(REPO_ROOT, rel)
        if os.path.isfile(p):
            with open(p, "rb") as f:
                data = f.read()
            cases.append(
                {
                    "kind": "doc", "data": data.hex(), "enc_used": None, "suffix": os.path.splitext(p)[1].lower(), "strict": True,
                    "encs": None, "fs": "native", "out": True, "bak": "other", "pre_out": False, "pre_bak": False, "bystanders": False,
                    "script": [["attr", "subtitle", ["(edited)"]], ["chart_set", 0, "DESCRIPTION", ["x"]]],
                }
            )
    return cases


def parts(tier):
    q = tier == "quick"
    return [
        {"name": "examples-and-corpus", "kind": "fixed", "cases": _fixed_cases},
        {"name": "random", "kind": "hypothesis", "strategy": s_case, "examples": 2400 if q else 16 * 8000},
        {"name": "buffer-straddling", "kind": "hypothesis", "strategy": s_straddle_case, "examples": 480 if q else 16 * 1200},
    ]
