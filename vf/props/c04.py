"""
C04 - Load, save, load loses nothing; a second save changes nothing.
"""
from hypothesis import strategies as st

from .. import gen_msd as GM
from .. import model_load as R
from .. import msdgap
from ..core import Verdict, Violation

ID = "C04"
LEVEL = "exploration"
RULE = (
    "texts generated as for C03 (segment documents with metacharacters, escapes, comments, duplicate/lower-case/key-only/"
    "multi-component parameters, NOTES/NOTEDATA sections, stray text, missing semicolons, BOM) plus the corpus files and "
    "random truncations/splices/duplications/insertions of them; each loaded with strict=True and strict=False through "
    "loads() (detected format) and through both class constructors (forced format); every text x strictness x format "
    "that loads is one evaluation: serialize, load the output in the same format strictly, compare properties and charts "
    "(SSC note item last), serialize again and compare byte for byte. Excluded and counted: texts that do not load, SSC "
    "charts without note data (documented KeyError), loaded values inside msdparser's escaping gap. Non-trivial = the "
    "loaded object has a chart or the source has a duplicate/lower-case/key-only/multi-value parameter; distinct = "
    "distinct case JSON"
)
RULE += " " + "Round 6: part 'charts-over-64KiB' - SM and SSC charts whose note data is 65528..131081 characters long, with or without an escaped backslash / colon / comment opener / semicolon in a header field or in the note data."
RULE += " " + 'Round 7: alias keys next to their standard keys (BGCHANGES + ANIMATIONS, STOPS + FREEZES) in the documents.'
ASSUMPTIONS = ["msdparser.parse_msd is the trusted tokenizer", "values inside msdparser's escaping gap are outside the domain"]


def need(c, msg):
    if not c:
        raise Violation(msg)


def short(t, n=240):
    return repr(t if len(t) <= n else t[:n] + "...")


def picture(s):
    from simfile.ssc import SSCSimfile

    if isinstance(s, SSCSimfile):
        return "ssc", [[k, v] for k, v in s.items()], [[[k, v] for k, v in c.items()] for c in s.charts]
    return (
        "sm",
        [[k, v] for k, v in s.items()],
        [{"fields": [c[k] for k in ("STEPSTYPE", "DESCRIPTION", "DIFFICULTY", "METER", "RADARVALUES", "NOTES")], "extra": (list(c.extradata) if c.extradata else None)} for c in s.charts],
    )


def cycle(load, text, what, labels):
    """one load/save/load/save cycle; returns 1 if evaluated, 0 if excluded (labels say why)"""
    from msdparser import MSDParserError

    try:
        s1 = load()
    except (MSDParserError, ValueError):
        labels.add("excluded:does-not-load")
        return 0
    fmt, items, charts = picture(s1)
    if fmt == "ssc":
        if any(msdgap.ssc_notes_key(ci) is None for ci in charts):
            labels.add("excluded:ssc-chart-without-notes")
            return 0
        emission = msdgap.emission_ssc(items, charts)
        exp_charts = [[[k, v] for k, v in ci if k != msdgap.ssc_notes_key(ci)] + [[msdgap.ssc_notes_key(ci), dict((k, v) for k, v in ci)[msdgap.ssc_notes_key(ci)]]] for ci in charts]
    else:
        emission = msdgap.emission_sm(items, charts)
        exp_charts = charts
    if msdgap.in_gap(emission):
        labels.add("excluded:escaping-gap")
        return 0
    try:
        t1 = str(s1)
    except Exception as e:  # noqa
        raise Violation(f"{what}: the loaded simfile cannot be serialized: {type(e).__name__}: {e}; source text {short(text)}")
    try:
        s2 = type(s1)(string=t1)
    except (MSDParserError, ValueError) as e:
        raise Violation(f"{what}: the saved text is rejected by the strict parser: {type(e).__name__}: {e}; saved text {short(t1)}; source {short(text)}")
    f2, i2, c2 = picture(s2)
    need(i2 == items, f"{what}: properties after load/save/load {i2[:8]} != after the first load {items[:8]}; source {short(text)}")
    need(len(c2) == len(exp_charts), f"{what}: {len(c2)} charts after the cycle, {len(exp_charts)} before; source {short(text)}")
    for n, (a, b) in enumerate(zip(c2, exp_charts)):
        need(a == b, f"{what}: chart {n} after the cycle {a} != before {b}; source {short(text)}")
    t2 = str(s2)
    need(t2 == t1, f"{what}: a second save changes the text: {short(t1)} -> {short(t2)}")
    labels.add("cycled:" + fmt)
    if charts:
        labels.add("has-chart")
    if any(v is None for _, v in items):
        labels.add("key-only-loaded")
    return 1


def check(case):
    import simfile
    from simfile.sm import SMSimfile
    from simfile.ssc import SSCSimfile

    kind = case["kind"]
    if kind == "doc":
        text = GM.render(case["doc"])
    elif kind == "corpus_mut":
        text = GM.corpus_mut_text(case)
    else:
        text = case["text"]
    labels = set()
    evals = 0
    for strict in (True, False):
        evals += cycle(lambda: simfile.loads(text, strict=strict), text, f"loads(strict={strict})", labels)
        for cls in (SMSimfile, SSCSimfile):
            evals += cycle(lambda: cls(string=text, strict=strict), text, f"{cls.__name__}(strict={strict})", labels)
    if evals == 0:
        return Verdict(excluded=sorted(l for l in labels if l.startswith("excluded:"))[0][9:] if labels else "does-not-load")
    from .c03 import features

    feats = features(text, case.get("doc"))
    nontrivial = "has-chart" in labels or bool(feats & {"duplicate-key", "lower-case-key", "key-only", "multi-value-key"})
    return Verdict(nontrivial=nontrivial, labels=sorted(labels | feats), evals=evals)


def s_doc():
    return st.builds(lambda d: {"kind": "doc", "doc": d}, GM.documents())


@st.composite
def s_big_chart(draw):
    """a chart whose note data is longer than 64 KiB (marathon charts are), with or without an escaped backslash /
    colon / comment opener in a header field or inside the note data - size-dependent writer paths see these"""
    n = draw(st.sampled_from([65536, 65536, 65537, 65540, 70000, 98304, 131073])) + draw(st.integers(-8, 8))
    tok = draw(st.sampled_from(["", "\\\\", "\\\\", "\\:", "\\//", "\\;"]))
    pos = draw(st.sampled_from([0, 100, 4095, 32767, 65535, 65536]))
    notes = ("0000\n" * (n // 5 + 1))[:n]
    if tok and draw(st.booleans()):
        pos = min(pos, len(notes))
        notes = notes[:pos] + tok + notes[pos:]
    desc = draw(st.sampled_from(["plain", "back\\\\slash", "shrug \\\\_(o_o)_/", "a\\:b", "x"]))
    if draw(st.booleans()):
        text = f"#TITLE:t;\n#NOTES:\n     dance-single:\n     {desc}:\n     Hard:\n     9:\n     0,0:\n{notes}\n;\n"
    else:
        nk = draw(st.sampled_from(["NOTES", "NOTES", "NOTES2"]))
        text = f"#VERSION:0.83;\n#TITLE:t;\n#NOTEDATA:;\n#STEPSTYPE:dance-single;\n#DESCRIPTION:{desc};\n#{nk}:\n{notes}\n;\n"
    return {"kind": "raw", "text": text}


def fixed_cases():
    return [{"kind": "corpus_mut", "path": rel, "head": None, "ops": []} for rel in GM.corpus_texts()]


def parts(tier):
    q = tier == "quick"
    from ..fuzzpart import make_part

    extra = [] if q else [make_part(ID, 200000)]
    return extra + [
        {"name": "corpus", "kind": "fixed", "cases": fixed_cases},
        {"name": "documents", "kind": "hypothesis", "strategy": s_doc, "examples": 10000 if q else 16 * 30000},
        {"name": "corpus-mutations", "kind": "hypothesis", "strategy": GM.corpus_mutations, "examples": 1500 if q else 16 * 4000},
        {"name": "charts-over-64KiB", "kind": "hypothesis", "strategy": s_big_chart, "examples": 96 if q else 16 * 60},
    ]
