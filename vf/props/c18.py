"""
C18 - attribute and key views of a simfile or chart never disagree.

Oracle: an ordered list-of-pairs model written from docs/source/known-properties.rst (tables transcribed in
vf/simmodel.py): the attribute of a known property acts on its standard key, or on its legacy alias exactly when the
alias is present and the standard key is not; an absent property reads None and deleting it raises KeyError; every
other key and the insertion order are untouched; equality and serialization see exactly the mapping; an SM chart keeps
its six fields in the documented order and refuses every attempt to add or remove a key.

One interpreter (`Interp`) applies plain-data operations to the real object and to the model side by side and runs
the invariant; it serves the complete one-step enumeration (every model state x every operation, the real object
rebuilt from the state), the SM chart enumeration and the replay of RuleBasedStateMachine histories.
"""
import functools
import io
import re

from hypothesis import strategies as st

from .. import msdgap
from .. import simmodel as M
from ..core import Verdict, Violation

ID = "C18"
LEVEL = "exploration"
RULE = (
    "(a) one-step conformance, complete: for each object kind {SM simfile, SSC simfile, SSC chart} and EVERY known "
    "property of it (aliased: stops/FREEZES on SM, bgchanges/ANIMATIONS on both simfiles, notes/NOTES2 on the SSC "
    "chart; FREEZES is also used as a decoy key for the un-aliased stops of SSC objects), breadth-first over all "
    "ordered mappings over {standard key, alias or decoy key, unrelated key(s)} x values {non-empty, ''} reachable "
    "from the empty object within the stated depth; one case = one model state: the real object is rebuilt from the "
    "state through two public paths (item assignment on an empty object; parsing text) and every operation "
    "{get/set/del by attribute; get/set/del/in by each key; iteration} x value is applied to a fresh copy, its "
    "result or exception and the resulting item list (order included) compared with the model, then all attributes, "
    "equality with a rebuilt twin, inequality with the previous content, and the serialization read back with "
    "msdparser.parse_msd and with the class's own parser. (b) SM chart, complete: all assignments of {initial, "
    "non-empty, ''} to the six fields reachable within the depth, every get/set by attribute and upper-case key and "
    "every refusal (new key, del by key/attribute, pop, popitem, update) from each, built through from_msd, from_str, "
    "blank()+attributes and a parsed SM simfile (quick tier: two of these four paths per state, alternating). (c) RuleBasedStateMachine histories on one long-lived object per "
    "kind over all known properties, aliases, decoys and unrelated keys with the same interpreter and the invariant "
    "after every step. Counted: every (state, operation, construction path) triple of (a)/(b) once (distinct by "
    "construction); a history is non-trivial when >= 3 of its operations changed the mapping; distinct = distinct "
    "history JSON"
)
RULE += " " + 'Added after the seeding rounds: SSC charts constructed by SSCChart.from_str (parsing stops at the note key, the rest is assigned by key); inequality with a twin holding the same keys in rotated order with the same sequence of values; unrelated keys that spell attribute / method names in upper case (EXTRADATA, ITEMS, KEYS, GET, ...).'
RULE += " " + 'Round 6: the empty key and near-namesakes of known properties (LASTBEATHINT, BACKGROUND2, DISPLAYBPMS ...) among the unrelated keys.'
RULE += " " + 'Round 7: for every SM chart state a twin filled notes-first into an empty chart must serialize in the documented field order and read back the same values.'
ASSUMPTIONS = [
    "msdparser.parse_msd is the trusted tokenizer for reading serialized text back",
    "the attribute/key/alias tables in vf/simmodel.py are a faithful transcription of docs/source/known-properties.rst",
    "keys are upper-case and never the format's reserved key (NOTES in an SM simfile, NOTEDATA in SSC objects); values "
    "are free of MSD metacharacters and equal to their own strip(), so that the serialization checks are not disturbed "
    "by msdparser's escaping gap or by SMChart's documented stripping",
    "an SSC chart holding neither NOTES nor NOTES2 is not serializable; serialization is not checked in those states",
    "mixed-case spellings of the six SM chart keys and clear() are outside the listed operations and not generated",
]

KINDS = ("sm", "ssc", "sscchart", "smchart")
SMCHART_ATTRS = {a: (k, None) for a, k in zip(M.SM_ATTRS, M.SM_FIELDS)}
ATTRS = {"sm": M.SM_SIM_ATTRS, "ssc": M.SSC_SIM_ATTRS, "sscchart": M.SSC_CHART_ATTRS, "smchart": SMCHART_ATTRS}
# a key that is an alias elsewhere but must be an ordinary key here (known-properties.rst: FREEZES is SM-only)
DECOYS = {("ssc", "stops"): "FREEZES", ("sscchart", "stops"): "FREEZES"}
RESERVED = {"sm": {"NOTES"}, "ssc": {"NOTEDATA"}, "sscchart": {"NOTEDATA"}, "smchart": set()}
VIAS = {"sm": ("setitem", "parse"), "ssc": ("setitem", "parse"), "sscchart": ("setitem", "parse", "from_str"),
        "smchart": ("from_msd", "from_str", "blank", "parse")}
SM_BASE = ["dance-single", "desc", "Hard", "9", "0.1,0.2", "0000"]
_PLAIN = re.compile(r"[A-Za-z0-9 .,=_\n-]*\Z")


def need(c, msg):
    if not c:
        raise Violation(msg)


# ------------------------------------------------------------------------------------------------
# building and observing real objects (public API only)


_CLS = []


def _classes():
    if not _CLS:
        from simfile.sm import SMChart, SMSimfile
        from simfile.ssc import SSCChart, SSCSimfile

        _CLS.extend((SMSimfile, SSCSimfile, SSCChart, SMChart))
    return _CLS


def _text(kind, items):
    if kind == "smchart":
        return "#NOTES:" + ":".join(v for _, v in items) + ";\n"
    head = "#NOTEDATA:;\n" if kind == "sscchart" else ""
    return head + "".join((f"#{k};\n" if v is None else f"#{k}:{v};\n") for k, v in items)


def build(kind, items, via):
    SMSimfile, SSCSimfile, SSCChart, SMChart = _classes()
    if kind == "smchart":
        vals = [v for _, v in items]
        if via == "from_msd":
            return SMChart.from_msd(vals)
        if via == "from_str":
            return SMChart.from_str(":".join(vals))
        if via == "blank":
            c = SMChart.blank()
            for attr, v in zip(M.SM_ATTRS, vals):
                setattr(c, attr, v)
            return c
        if via == "shuffled":
            # an empty chart whose six fields are assigned notes first, then the others from last to first
            c = SMChart()
            for attr, v in reversed(list(zip(M.SM_ATTRS, vals))):
                setattr(c, attr, v)
            return c
        return SMSimfile(string=_text(kind, items)).charts[0]
    if via == "from_str" and kind == "sscchart":
        # documented: parsing ends at the NOTES (or NOTES2) property - whatever follows it is assigned by key afterwards
        cut = next((i + 1 for i, (k, _) in enumerate(items) if k in ("NOTES", "NOTES2")), len(items))
        c = SSCChart.from_str(_text(kind, items[:cut]))
        for k, v in items[cut:]:
            c[k] = v
        return c
    if via == "parse":
        if kind == "sm":
            return SMSimfile(string=_text(kind, items))
        s = SSCSimfile(string=_text(kind, items))
        return s if kind == "ssc" else s.charts[0]
    if via == "blank":
        return {"sm": SMSimfile, "ssc": SSCSimfile, "sscchart": SSCChart}[kind].blank()
    o = SMSimfile(string="") if kind == "sm" else SSCSimfile(string="") if kind == "ssc" else SSCChart()
    for k, v in items:
        o[k] = v
    return o


def items_of(o):
    return [[k, v] for k, v in o.items()]


def other_via(kind, via):
    if kind == "smchart":
        return "from_str" if via == "from_msd" else "from_msd"
    return "parse" if via == "setitem" else "setitem"


# ------------------------------------------------------------------------------------------------
# the model


def m_lookup(items, k):
    return M.m_get(items, k) if M.m_has(items, k) else None


def model_step(kind, items, op):
    """-> (expected outcome, new items).  outcomes: ("val", x) | ("exc", "KeyError") | ("refused",) |
    ("refused_or", default)   ("refused": any exception, the mapping unchanged)"""
    attrs = ATTRS[kind]
    fixed = kind == "smchart"
    new = [list(p) for p in items]
    t = op[0]
    if t in ("aget", "aset", "adel"):
        std, alias = attrs[op[1]]
        k = M.attr_key(items, std, alias)
        if t == "aget":
            return ("val", m_lookup(items, k)), new
        if t == "aset":
            M.m_set(new, k, op[2])
            return ("val", None), new
        if fixed:
            return ("refused",), new
        if not M.m_has(items, k):
            return ("exc", "KeyError"), new
        M.m_del(new, k)
        return ("val", None), new
    if t == "kget":
        return (("val", M.m_get(items, op[1])) if M.m_has(items, op[1]) else ("exc", "KeyError")), new
    if t == "kset":
        if fixed and not M.m_has(items, op[1]):
            return ("refused",), new
        M.m_set(new, op[1], op[2])
        return ("val", None), new
    if t == "kdel":
        if fixed:
            return ("refused",), new
        if not M.m_has(items, op[1]):
            return ("exc", "KeyError"), new
        M.m_del(new, op[1])
        return ("val", None), new
    if t == "kin":
        return ("val", M.m_has(items, op[1])), new
    if t == "iter":
        ks = [k for k, _ in items]
        return ("val", [ks, ks, [v for _, v in items], len(items)]), new
    if fixed:
        if t in ("pop", "popitem", "update", "updatekw"):
            return ("refused",), new
        if t == "popd":
            return (("refused",) if M.m_has(items, op[1]) else ("refused_or", op[2])), new
    raise Violation(f"unknown operation {op} for kind {kind}")


def real_step(o, op):
    """the single library call of an operation; -> ("val", x) | ("exc", type name, text)"""
    t = op[0]
    try:
        if t == "aget":
            return ("val", getattr(o, op[1]))
        if t == "aset":
            setattr(o, op[1], op[2])
            return ("val", None)
        if t == "adel":
            delattr(o, op[1])
            return ("val", None)
        if t == "kget":
            return ("val", o[op[1]])
        if t == "kset":
            o[op[1]] = op[2]
            return ("val", None)
        if t == "kdel":
            del o[op[1]]
            return ("val", None)
        if t == "kin":
            return ("val", op[1] in o)
        if t == "iter":
            return ("val", [list(o), list(o.keys()), list(o.values()), len(o)])
        if t == "pop":
            return ("val", o.pop(op[1]))
        if t == "popd":
            return ("val", o.pop(op[1], op[2]))
        if t == "popitem":
            return ("val", list(o.popitem()))
        if t == "update":
            o.update({k: v for k, v in op[1]})
            return ("val", None)
        if t == "updatekw":
            o.update(**{op[1]: op[2]})
            return ("val", None)
    except Exception as e:  # noqa - the outcome is compared with the model by the caller
        return ("exc", type(e).__name__, str(e)[:200])
    raise Violation(f"unknown operation {op}")


def in_domain(kind, items, ops):
    """guards hand-written replay cases: upper-case non-reserved keys, metacharacter-free stripped values"""
    keys = [k for k, _ in items] + [op[1] for op in ops if op[0] in ("kget", "kset", "kdel", "kin", "pop", "popd", "updatekw")]
    keys += [k for op in ops if op[0] == "update" for k, _ in op[1]]
    vals = [v for _, v in items] + [op[2] for op in ops if op[0] in ("aset", "kset", "updatekw")]
    vals += [v for op in ops if op[0] == "update" for _, v in op[1]]
    for k in keys:
        if not isinstance(k, str) or not k or not _PLAIN.match(k) or "\n" in k or k in RESERVED[kind]:
            return f"key {k!r} outside the domain"
        if kind == "smchart":
            if k not in M.SM_FIELDS and k.upper() in M.SM_FIELDS:
                return "mixed-case spelling of an SM chart key"
        elif k != k.upper():
            return "lower-case key (keys are upper-cased by the parser)"
    for v in vals:
        if not isinstance(v, str) or not _PLAIN.match(v) or v != v.strip():
            return f"value {v!r} outside the domain"
    if kind == "smchart" and [k for k, _ in items] != list(M.SM_FIELDS):
        return "an SM chart state is its six fields"
    return None


class Interp:
    def __init__(self, kind, start):
        self.kind = kind
        self.via = start.get("via", VIAS[kind][0])
        if self.via == "blank" and kind != "smchart":
            self.obj = build(kind, [], "blank")
            self.items = items_of(self.obj)  # the documented blank object is taken as it is
        else:
            self.items = [list(p) for p in start.get("items", [])]
            self.obj = build(kind, self.items, self.via)
        self.prev = None
        self.changes = 0
        self.evals = 0
        self.labels = set()

    def where(self):
        return f"{self.kind} (built via {self.via})"

    def step(self, op):
        kind, o = self.kind, self.obj
        before = [list(p) for p in self.items]
        exp, new = model_step(kind, before, op)
        got = real_step(o, op)
        ctx = f"{self.where()} holding {before}: {op}"
        if exp[0] == "val":
            need(got[0] == "val", f"{ctx} raised {got[1:]}, expected the result {exp[1]!r}")
            need(got[1] == exp[1] and (got[1] is None) == (exp[1] is None), f"{ctx} returned {got[1]!r}, expected {exp[1]!r}")
        elif exp[0] == "exc":
            need(got[0] == "exc", f"{ctx} returned {got[1]!r} silently, expected {exp[1]}")
            need(got[1] == exp[1], f"{ctx} raised {got[1]}({got[2]}), expected {exp[1]}")
            self.labels.add("keyerror")
        elif exp[0] == "refused":
            need(got[0] == "exc", f"{ctx} succeeded silently (returned {got[1]!r}); adding/removing keys of an SM chart must be refused")
            self.labels.add("refused")
        else:  # refused_or default: pop(absent, default) removes nothing either way
            need(got[0] == "exc" or got[1] == exp[1], f"{ctx} returned {got[1]!r}, expected a refusal or the default {exp[1]!r}")
            self.labels.add("refused")
        if op[0] in ("aset", "adel", "aget"):
            std, alias = ATTRS[kind][op[1]]
            if alias and M.attr_key(before, std, alias) == alias:
                self.labels.add("attr-through-alias")
            elif alias and M.m_has(before, alias):
                self.labels.add("both-present")
        self.prev = before
        self.items = new
        if new != before:
            self.changes += 1
        self.evals += 1
        got_items = items_of(o)
        need(got_items == new, f"{ctx}: items afterwards {got_items}, expected {new}")

    # -- the invariant -----------------------------------------------------------------------
    def invariant(self, lazy=False):
        """lazy: leave the known-property attributes unread (only explicit operations read them), so that state an
        attribute read might refresh stays as the history left it"""
        kind, o, items = self.kind, self.obj, self.items
        w = f"{self.where()} after {self.evals} operations"
        need(items_of(o) == items, f"{w}: items {items_of(o)}, expected {items}")
        ks = [k for k, _ in items]
        need(list(o) == ks and list(o.keys()) == ks and len(o) == len(ks), f"{w}: iteration gives {list(o)}, expected {ks}")
        if kind == "smchart":
            need(ks == list(M.SM_FIELDS), f"{w}: an SM chart must expose exactly {list(M.SM_FIELDS)}, has {ks}")
        for attr, (std, alias) in ([] if lazy else ATTRS[kind].items()):
            exp = m_lookup(items, M.attr_key(items, std, alias))
            got = getattr(o, attr)
            need(got == exp and (got is None) == (exp is None), f"{w}: attribute {attr} reads {got!r}, expected {exp!r}; mapping {items}")
        for k, v in items:
            need(k in o and o[k] == v, f"{w}: key view of {k!r} disagrees with items()")
        need(items_of(o) == items, f"{w}: reading changed the mapping to {items_of(o)}")
        twin = build(kind, items, other_via(kind, self.via))
        need(o == twin and twin == o and not (o != twin), f"{w}: not equal to an object rebuilt from the same mapping {items}")
        if kind != "smchart" and len(items) >= 2:
            # the same keys in rotated order holding the same sequence of values: another mapping unless all values agree
            rot = [[items[(i + 1) % len(items)][0], items[i][1]] for i in range(len(items))]
            if dict(map(tuple, rot)) != dict(map(tuple, items)):
                shifted = build(kind, rot, other_via(kind, self.via))
                need(o != shifted and not (o == shifted) and not (shifted == o), f"{w}: compares equal to an object holding {rot} while it holds {items}")
        if self.prev is not None and dict(map(tuple, self.prev)) != dict(map(tuple, items)):
            old = build(kind, self.prev, other_via(kind, self.via))
            need(o != old and not (o == old), f"{w}: compares equal to an object holding {self.prev} while it holds {items}")
        if kind == "smchart":
            # equality sees exactly the mapping's content: a field that differs only by surrounding blanks is a difference
            fi = self.evals % len(M.SM_FIELDS)
            other = build(kind, items, other_via(kind, self.via))
            setattr(other, M.SM_ATTRS[fi], items[fi][1] + " ")
            need(not (o == other) and not (other == o), f"{w}: compares equal to a chart whose {M.SM_FIELDS[fi]} is {items[fi][1] + ' '!r} instead of {items[fi][1]!r}")
        self._serialization(w)

    def _serialization(self, w):
        from msdparser import parse_msd

        SMSimfile, SSCSimfile, SSCChart, SMChart = _classes()
        kind, o, items = self.kind, self.obj, self.items
        if kind == "sscchart":
            nk = msdgap.ssc_notes_key(items)
            if nk is None:
                self.labels.add("no-note-data:serialization-skipped")
                return
        text = str(o)
        buf = io.StringIO()
        o.serialize(buf)
        need(buf.getvalue() == text, f"{w}: serialize(file) and str() differ")
        params = list(parse_msd(string=text))
        pairs = [[p.key, ":".join(p.components[1:]) if len(p.components) > 1 else None] for p in params]
        if kind in ("sm", "ssc"):
            need(pairs == items, f"{w}: serialized text {text!r} holds {pairs}, the mapping is {items}")
            back = (SMSimfile if kind == "sm" else SSCSimfile)(string=text)
            need(items_of(back) == items and len(back.charts) == 0, f"{w}: re-parsed serialization holds {items_of(back)}, the mapping is {items}")
            need(back == o, f"{w}: re-parsed serialization does not compare equal")
        elif kind == "sscchart":
            expect = [p for p in items if p[0] != nk] + [[nk, M.m_get(items, nk)]]
            need(pairs[:1] == [["NOTEDATA", ""]], f"{w}: serialized chart does not start with NOTEDATA: {text!r}")
            need(pairs[1:] == expect, f"{w}: serialized chart {text!r} holds {pairs[1:]}, expected the mapping with the note item last {expect}")
            if sum(M.m_has(items, k) for k in ("NOTES", "NOTES2")) == 1:
                back = SSCChart.from_str(text)
                need(items_of(back) == expect, f"{w}: SSCChart.from_str(serialization) holds {items_of(back)}, expected {expect}")
            if len(items) > 1:
                self.labels.add("notes-both" if M.m_has(items, "NOTES") and M.m_has(items, "NOTES2") else "notes-" + nk)
        else:
            vals = [v for _, v in items]
            need(len(params) == 1 and params[0].key == "NOTES", f"{w}: serialized chart is not one NOTES parameter: {text!r}")
            comps = [c.strip() for c in params[0].components[1:]]
            need(comps == vals, f"{w}: serialized chart {text!r} holds the fields {comps}, expected {vals} in the documented order {list(M.SM_FIELDS)}")
            back = SMSimfile(string=text).charts[0]
            need(items_of(back) == items, f"{w}: re-parsed chart holds {items_of(back)}, expected {items}")
            need(back == o, f"{w}: re-parsed chart does not compare equal")
            # the same six values assigned to an empty chart notes first, then the other fields from last to first: the
            # mapping keeps that (insertion) order, the serialized chart has the documented field order all the same
            twin = build("smchart", items, "shuffled")
            tp = list(parse_msd(string=str(twin)))
            need(len(tp) == 1 and [c.strip() for c in tp[0].components[1:]] == vals,
                 f"{w}: a chart filled in another order serializes as {str(twin)!r}, expected the fields {vals} in the documented order {list(M.SM_FIELDS)}")
            for (k, v), a in zip(items, M.SM_ATTRS):
                need(twin[k] == v and getattr(twin, a) == v, f"{w}: a chart filled in another order reads {k} as {twin[k]!r} / {getattr(twin, a)!r}, expected {v!r}")


# ------------------------------------------------------------------------------------------------
# complete part: operations and reachable states


def step_ops(kind, attr, vals, others):
    """every operation of the one-step enumeration for one property (SM chart: for all six fields)"""
    if kind == "smchart":
        ops = []
        for a, k in zip(M.SM_ATTRS, M.SM_FIELDS):
            ops += [["aget", a], ["adel", a], ["kget", k], ["kdel", k], ["kin", k], ["pop", k], ["popd", k, "d"]]
            ops += [["aset", a, v] for v in vals] + [["kset", k, v] for v in vals]
        for u in others:
            ops += [["kget", u], ["kdel", u], ["kin", u], ["pop", u], ["popd", u, "d"]]
            ops += [["kset", u, v] for v in vals] + [["update", [[u, v]]] for v in vals] + [["updatekw", u, v] for v in vals]
        return ops + [["popitem"], ["iter"]]
    std, alias = ATTRS[kind][attr]
    second = alias or DECOYS.get((kind, attr))
    keys = [std] + ([second] if second else []) + list(others)
    ops = [["aget", attr], ["adel", attr]] + [["aset", attr, v] for v in vals]
    for k in keys:
        ops += [["kget", k], ["kdel", k], ["kin", k]] + [["kset", k, v] for v in vals]
    return ops + [["iter"]]


@functools.lru_cache(maxsize=None)
def _reachable(kind, attr, vals, others, depth):
    """model-only breadth-first search; -> tuple of (state as tuple of pairs, depth of discovery)"""
    start = tuple(zip(M.SM_FIELDS, SM_BASE)) if kind == "smchart" else ()
    ops = step_ops(kind, attr, list(vals), list(others))
    seen = {start}
    order = [(start, 0)]
    frontier = [start]
    for d in range(1, depth + 1):
        nxt = []
        for s in frontier:
            items = [list(p) for p in s]
            for op in ops:
                _, new = model_step(kind, items, op)
                t = tuple(map(tuple, new))
                if t not in seen:
                    seen.add(t)
                    nxt.append(t)
                    order.append((t, d))
        frontier = nxt
    return tuple(order)


def _targets(kinds):
    for kind in kinds:
        if kind == "smchart":
            yield kind, None
        else:
            for attr in sorted(ATTRS[kind]):
                yield kind, attr


def _state_iter(kinds, part, vals, others, depth, all_vias=True):
    def it(shard, nshards):
        idx = 0
        for kind, attr in _targets(kinds):
            for si, (state, d) in enumerate(_reachable(kind, attr, tuple(vals), tuple(others), depth)):
                if idx % nshards == shard:
                    vias = list(VIAS[kind])
                    if not all_vias and len(vias) > 2:  # quick tier: two of the four SM chart construction paths per state
                        vias = vias[si % 2::2]
                    yield {"part": part, "obj": kind, "attr": attr, "state": [list(p) for p in state], "found_at_depth": d,
                           "vals": list(vals), "others": list(others), "vias": vias}
                idx += 1

    return it


def check_state(case):
    kind, attr = case["obj"], case["attr"]
    ops = step_ops(kind, attr, case["vals"], case["others"])
    why = in_domain(kind, case["state"], ops)
    if why:
        return Verdict(excluded=why)
    n = 0
    labels = set()
    for via in case["vias"]:
        for op in ops:
            interp = Interp(kind, {"via": via, "items": case["state"]})
            interp.step(op)
            interp.invariant()
            labels |= interp.labels
            n += 1
    if kind != "smchart":
        std, alias = ATTRS[kind][attr]
        second = alias or DECOYS.get((kind, attr))
        has_s = M.m_has(case["state"], std)
        if not second:
            labels.add("state:plain-present" if has_s else "state:plain-absent")
        else:
            word = "alias" if alias else "decoy"
            has_a = M.m_has(case["state"], second)
            labels.add("state:" + ("both" if has_s and has_a else "standard-only" if has_s else word + "-only" if has_a else word + "-neither"))
    labels.add("kind:" + kind)
    labels.add(f"depth:{case.get('found_at_depth')}")
    return Verdict(nontrivial=True, labels=sorted(labels), evals=n, weight=n)


# ------------------------------------------------------------------------------------------------
# histories (state machine and its replay)


def check_history(case):
    kind = case["obj"]
    why = in_domain(kind, case["start"].get("items", []), case["ops"])
    if why:
        return Verdict(excluded=why)
    interp = Interp(kind, case["start"])
    lazy = bool(case["start"].get("lazy"))
    interp.invariant(lazy=lazy)
    for op in case["ops"]:
        interp.step(op)
        interp.invariant(lazy=lazy and interp.evals % 7 != 0)
    if lazy:
        interp.labels.add("lazy-attribute-reads")
    labels = set(interp.labels) | {"kind:" + kind, "start:" + interp.via}
    return Verdict(nontrivial=interp.changes >= 3, labels=sorted(labels), evals=max(1, interp.evals))


def check(case):
    if case["part"] == "history":
        return check_history(case)
    return check_state(case)


VALUE = st.one_of(
    st.just(""),
    st.sampled_from(["v", "w", "0.000=120.000", "a b.c", "YES", "1"]),
    st.text(alphabet="abXY019 .", max_size=6).map(str.strip),
)
# simfiles and SSC charts: also None (what a key-only parameter such as '#STOPS;' loads as - present, without a value) and
# values holding carriage returns (what Windows-authored multi-line values load as)
VALUE_ANY = st.one_of(VALUE, VALUE, VALUE, st.none(), st.sampled_from(["a\rb", "x\r\ny", "1\r\n,2"]))
# the last ones: upper-case spellings of attribute and method names of the objects - still just unrelated keys
UNRELATED = ["OTHER", "FOO", "BGCHANGES2", "STOPS2", "NOTES3", "EXTRADATA", "ITEMS", "KEYS", "GET", "SERIALIZE", "BLANK", "CHARTS", "POP",
             # the empty key (what '#:text;' loads as) and near-namesakes of known properties: no alias table lists them
             "", "LASTBEATHINT", "LASTSECOND", "BACKGROUND2", "BGCHANGES1", "DISPLAYBPMS", "CDTITLE2", "SAMPLE"]


def _key_pools(kind):
    attrs = ATTRS[kind]
    hot_attrs = sorted(a for a, (_, alias) in attrs.items() if alias) + sorted(a for (kd, a) in DECOYS if kd == kind)
    hot_keys = []
    for a in hot_attrs:
        std, alias = attrs[a]
        hot_keys += [std, alias or DECOYS[(kind, a)]]
    known = sorted({std for std, _ in attrs.values()})
    # every alias/decoy spelling is an ordinary key where the tables do not list it for this kind
    unrelated = [k for k in UNRELATED + ["FREEZES", "ANIMATIONS", "NOTES2", "NOTES", "NOTEDATA", "VERSION", "CHARTNAME"]
                 if k not in RESERVED[kind] and k not in known and k not in hot_keys]
    return hot_attrs, sorted(attrs), hot_keys, known, unrelated


def s_op(kind):
    hot_attrs, all_attrs, hot_keys, known, unrelated = _key_pools(kind)
    if kind == "smchart":
        attr = st.sampled_from(all_attrs)
        field = st.sampled_from(known)
        other = st.sampled_from(unrelated + ["foo"])
        return st.one_of(
            st.tuples(st.just("aget"), attr).map(list),
            st.tuples(st.just("aset"), attr, VALUE).map(list),
            st.tuples(st.just("aset"), attr, VALUE).map(list),
            st.tuples(st.just("kget"), st.one_of(field, field, other)).map(list),
            st.tuples(st.just("kset"), field, VALUE).map(list),
            st.tuples(st.just("kset"), field, VALUE).map(list),
            st.tuples(st.just("kset"), other, VALUE).map(list),
            st.tuples(st.just("kin"), st.one_of(field, other)).map(list),
            st.one_of(
                st.tuples(st.just("adel"), attr).map(list),
                st.tuples(st.just("kdel"), st.one_of(field, other)).map(list),
                st.tuples(st.just("pop"), st.one_of(field, other)).map(list),
                st.tuples(st.just("popd"), st.one_of(field, other), VALUE).map(list),
                st.just(["popitem"]),
                st.lists(st.tuples(other, VALUE).map(list), min_size=1, max_size=2, unique_by=lambda p: p[0]).map(lambda ps: ["update", ps]),
                st.tuples(st.just("updatekw"), st.sampled_from(unrelated), VALUE).map(list),
            ),
            st.just(["iter"]),
        )
    attr = st.one_of(st.sampled_from(hot_attrs), st.sampled_from(all_attrs))
    key = st.one_of(st.sampled_from(hot_keys), st.sampled_from(hot_keys), st.sampled_from(known), st.sampled_from(unrelated))
    return st.one_of(
        st.tuples(st.just("aget"), attr).map(list),
        st.tuples(st.just("aset"), attr, VALUE_ANY).map(list),
        st.tuples(st.just("aset"), attr, VALUE_ANY).map(list),
        st.tuples(st.just("adel"), attr).map(list),
        st.tuples(st.just("kget"), key).map(list),
        st.tuples(st.just("kset"), key, VALUE_ANY).map(list),
        st.tuples(st.just("kset"), key, VALUE_ANY).map(list),
        st.tuples(st.just("kdel"), key).map(list),
        st.tuples(st.just("kin"), key).map(list),
        st.just(["iter"]),
    )


def s_start(kind):
    hot_attrs, all_attrs, hot_keys, known, unrelated = _key_pools(kind)
    if kind == "smchart":
        return st.one_of(
            st.sampled_from(VIAS[kind]).map(lambda via: {"via": via, "items": [list(p) for p in zip(M.SM_FIELDS, SM_BASE)]}),
            st.tuples(st.sampled_from(VIAS[kind]), st.lists(VALUE, min_size=6, max_size=6)).map(
                lambda t: {"via": t[0], "items": [list(p) for p in zip(M.SM_FIELDS, t[1])]}
            ),
        )
    key = st.one_of(st.sampled_from(hot_keys), st.sampled_from(known), st.sampled_from(unrelated))
    some = st.lists(st.tuples(key, VALUE_ANY).map(list), max_size=5, unique_by=lambda p: p[0])
    base = st.one_of(
        st.just({"via": "setitem", "items": []}),
        st.just({"via": "blank"}),
        st.tuples(st.sampled_from([v for v in VIAS[kind] if v != "blank"]), some).map(lambda t: {"via": t[0], "items": t[1]}),
    )
    # half of the histories leave the attributes unread between operations (see Interp.invariant)
    return st.tuples(base, st.booleans()).map(lambda t: dict(t[0], lazy=t[1]))


def machine_factory(kind):
    from hypothesis.stateful import RuleBasedStateMachine, initialize, invariant, rule

    class ViewsMachine(RuleBasedStateMachine):
        STATS = None
        PART = "machine"
        LAST = None

        def __init__(self):
            super().__init__()
            self.start = None
            self.ops = []
            self.interp = None
            self.failed = False

        @initialize(start=s_start(kind))
        def begin(self, start):
            self.start = start
            try:
                self.interp = Interp(kind, start)
            except BaseException:
                self.failed = True
                raise

        @rule(op=s_op(kind))
        def operate(self, op):
            self.ops.append(op)
            try:
                self.interp.step(op)
            except BaseException:
                self.failed = True
                raise

        @invariant()
        def views_agree(self):
            if self.interp is None:
                return
            try:
                lazy = bool((self.start or {}).get("lazy"))
                self.interp.invariant(lazy=lazy and self.interp.evals % 7 != 0)
            except BaseException:
                self.failed = True
                raise

        def case(self):
            return {"part": "history", "obj": kind, "start": self.start or {"via": VIAS[kind][0], "items": []}, "ops": list(self.ops)}

        def teardown(self):
            case = self.case()
            type(self).LAST = case
            if not self.failed and self.interp is not None and type(self).STATS is not None:
                i = self.interp
                labels = set(i.labels) | {"kind:" + kind, "start:" + i.via, "machine"}
                type(self).STATS.record(case, Verdict(nontrivial=i.changes >= 3, labels=sorted(labels), evals=max(1, i.evals)), part=type(self).PART)

    ViewsMachine.__name__ = f"ViewsMachine_{kind}"
    return ViewsMachine


# ------------------------------------------------------------------------------------------------


def parts(tier):
    q = tier == "quick"
    vals = ["v", ""] if q else ["v", "w", ""]
    others = ["OTHER"] if q else ["OTHER", "ZED"]
    depth = 5 if q else 6
    out = [
        {"name": "one-step", "kind": "enum", "iter": _state_iter(("sm", "ssc", "sscchart"), "one-step", vals, others, depth), "exhaustive": True},
        {"name": "smchart-step", "kind": "enum", "iter": _state_iter(("smchart",), "smchart-step", ["v", ""], ["FOO", "EXTRADATA"], depth, all_vias=not q), "exhaustive": True},
    ]
    for kind in KINDS:
        out.append({"name": "machine-" + kind, "kind": "machine", "factory": (lambda k=kind: machine_factory(k)),
                    "examples": 256 if q else 16 * 250, "steps": 50 if q else 80})
    return out
