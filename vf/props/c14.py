"""
C14 - Beats are exact fractions that snap to the 1/48 grid only from inexact input.

Oracle: Python's Fraction / Decimal arithmetic (trusted), applied to the plain-data case.
"""
import operator
import re
from decimal import Decimal as D
from fractions import Fraction as F

from hypothesis import strategies as st

from ..core import Verdict, Violation

ID = "C14"
LEVEL = "exploration"
RULE = (
    "grid part: every tick multiple k/48 with |k/48| <= 2000 (192001 values, enumerated in chunks; each value is one "
    "evaluation; distinct = values, non-trivial = value != 0); random parts (Hypothesis): exact constructions and "
    "operator pairs over Fraction(n,d) d<=1000 / ints / Beats in both operand orders, inexact inputs (floats, Decimals, "
    "decimal strings, incl. constructed ties m/32 and near-ties), random tick multiples up to 1e7, event lists with "
    "decimal values (<=6 places, exponent forms) written out / decorated with blanks and line breaks / carried by SM "
    "and SSC simfiles and SSC charts into TimingData; non-trivial = no zero operand / non-empty list; distinct = "
    "distinct canonical JSON of the case"
)
RULE += " " + 'Round 6: every carrier is read a second time after the lists of the first TimingData objects were edited in place (append, delete) - including TimingData(simfile, chart without timing data): the second reading must equal the source again.'
RULE += " " + 'Round 7: TimingData of a simfile without a single property: no events, offset zero.'
ASSUMPTIONS = [
    "CPython Fraction and Decimal arithmetic is the reference",
    "msdparser tokenizer is trusted for the simfile -> TimingData path",
]

_THREE = re.compile(r"-?[0-9]+\.[0-9]{3}\Z")
TICKS = 48
CHUNK = 1000
GRID_K = 2000 * TICKS


def need(cond, msg):
    if not cond:
        raise Violation(msg)


def is_beat(x):
    from simfile.timing import Beat

    return type(x) is Beat


def _mk(spec):
    """operand spec -> (real operand, reference operand)"""
    from simfile.timing import Beat

    t = spec["t"]
    if t == "int":
        return spec["v"], spec["v"]
    f = F(spec["v"][0], spec["v"][1])
    if t == "frac":
        return f, f
    return Beat(f), f


BIN = {
    "add": operator.add,
    "sub": operator.sub,
    "mul": operator.mul,
    "truediv": operator.truediv,
    "mod": operator.mod,
}


def check(case):
    from simfile.timing import Beat, BeatValue, BeatValues, TimingData

    kind = case["kind"]

    if kind == "grid":
        lo, hi = case["lo"], case["hi"]
        nz = 0
        for k in range(lo, hi):
            ref = F(k, TICKS)
            b = Beat(k, TICKS)
            need(b == ref and is_beat(b), f"Beat({k},48) is {b!r}")
            s = str(b)
            need(_THREE.match(s) is not None and abs(F(D(s)) - ref) <= F(1, 2000), f"str(Beat({k},48)) = {s!r} is not the three-decimal form")
            need(Beat.from_str(s) == ref, f"Beat.from_str(str(Beat({k},48))) == {Beat.from_str(s)!r}, text {s!r}")
            need(Beat(s) == ref, f"Beat({s!r}) != {k}/48")
            need(Beat(D(s)) == ref, f"Beat(Decimal({s!r})) != {k}/48")
            need(Beat(float(ref)) == ref, f"Beat(float({k}/48)) != {k}/48")
            need(Beat(ref) == ref and is_beat(Beat(ref)), f"Beat(Fraction({k},48))")
            need(b.round_to_tick() == ref, "round_to_tick moved a tick-aligned beat")
            if k:
                nz += 1
        return Verdict(nontrivial=nz > 0, evals=hi - lo, weight=nz, labels=("grid",))

    if kind == "exact":
        n, d = case["n"], case["d"]
        ref = F(n, d)
        try:
            fl = float(ref)
            if F(fl) == ref:
                Beat(fl)  # the float of the very same value is rounded first
        except OverflowError:
            pass
        for how, b in (("pair", Beat(n, d)), ("fraction", Beat(ref)), ("beat", Beat(Beat(n, d)))):
            need(b == ref and is_beat(b), f"Beat from {how} {n}/{d} gave {b!r} ({type(b).__name__})")
            need(b.numerator == ref.numerator and b.denominator == ref.denominator, f"{how}: not normalised {b!r}")
        if d == 1:
            b = Beat(n)
            need(b == n and is_beat(b), f"Beat({n}) gave {b!r}")
        return Verdict(nontrivial=n != 0, labels=("exact",))

    if kind == "arith":
        a_real, a_ref = _mk({"t": "beat", "v": case["a"]})
        b_real, b_ref = _mk(case["b"])
        swap = case["swap"]
        l, r = (b_real, a_real) if swap else (a_real, b_real)
        lr, rr = (b_ref, a_ref) if swap else (a_ref, b_ref)
        evals = 0
        for name, op in BIN.items():
            if name in ("truediv", "mod") and rr == 0:
                try:
                    op(l, r)
                except ZeroDivisionError:
                    continue
                raise Violation(f"{name} by zero did not raise: {l!r} {r!r}")
            exp = op(F(lr), F(rr))
            try:
                if F(float(exp)) == exp:
                    Beat(float(exp))  # a float equal to the exact result has been rounded earlier in the process
            except OverflowError:
                pass
            got = op(l, r)
            evals += 1
            need(got == exp, f"{name}({l!r}, {r!r}) = {got!r}, exact {exp}")
            need(is_beat(got), f"{name}({l!r}, {r!r}) has type {type(got).__name__}, not Beat")
        if rr != 0:
            q, rem = divmod(l, r)
            eq, er = divmod(F(lr), F(rr))
            evals += 1
            need(q == eq and rem == er, f"divmod({l!r},{r!r}) = {(q, rem)!r}, exact {(eq, er)}")
            need(isinstance(q, int) and not isinstance(q, bool), f"divmod quotient type {type(q).__name__}")
            need(is_beat(rem), f"divmod remainder type {type(rem).__name__}")
        for name, u in (("neg", operator.neg), ("pos", operator.pos), ("abs", abs)):
            got = u(a_real)
            evals += 1
            need(got == u(a_ref) and is_beat(got), f"{name}({a_real!r}) = {got!r} ({type(got).__name__})")
        nontriv = a_ref != 0 and b_ref != 0
        return Verdict(nontrivial=nontriv, evals=evals, labels=("arith", "arith:" + case["b"]["t"], "swap" if swap else "noswap"))

    if kind == "inexact":
        form, v = case["form"], case["v"]
        if form == "float":
            x = float(v)
            exact = F(x)
            arg = x
        elif form == "decimal":
            arg = D(v)
            exact = F(arg)
        else:
            arg = v
            exact = F(D(v))
        b = Beat(arg)
        need(is_beat(b), f"Beat({arg!r}) type {type(b).__name__}")
        need((F(b) * TICKS).denominator == 1, f"Beat({arg!r}) = {F(b)} is not a multiple of 1/48")
        dist = abs(F(b) - exact)
        need(dist <= F(1, 2 * TICKS), f"Beat({arg!r}) = {F(b)} is {float(dist)} away (> 1/96) from the input")
        if form == "str":
            b2 = Beat.from_str(v)
            need(b2 == b and is_beat(b2), f"Beat.from_str({v!r}) = {b2!r} but Beat({v!r}) = {b!r}")
        tie = (exact * 2 * TICKS).denominator == 1 and (exact * TICKS).denominator != 1
        labels = ["inexact:" + form]
        if tie:
            labels.append("exact-tie")
        elif (exact * TICKS).denominator != 1:
            labels.append("off-grid")
        return Verdict(nontrivial=exact != 0, labels=labels)

    if kind == "bigtick":
        k = case["k"]
        ref = F(k, TICKS)
        b = Beat(k, TICKS)
        s = str(b)
        need(_THREE.match(s) is not None, f"str(Beat({k},48)) = {s!r} is not the three-decimal form")
        need(Beat.from_str(s) == ref, f"Beat.from_str({s!r}) = {Beat.from_str(s)!r}, expected {k}/48")
        need(Beat(s) == ref, f"Beat({s!r}) != {k}/48")
        return Verdict(nontrivial=k != 0, labels=("bigtick",))

    if kind == "events":
        evs = [(F(k, TICKS), D(v)) for k, v in case["events"]]
        bv = BeatValues([BeatValue(Beat(k, TICKS), D(v)) for k, v in case["events"]])
        text = str(bv)

        def same(got, what):
            need(len(got) == len(evs), f"{what}: {len(got)} events, expected {len(evs)}; text {text!r}")
            for g, (eb, ev) in zip(got, evs):
                need(g.beat == eb and is_beat(g.beat), f"{what}: beat {g.beat!r}, expected {eb}; text {text!r}")
                need(
                    isinstance(g.value, D) and g.value.as_tuple() == ev.as_tuple(),
                    f"{what}: value {g.value!r}, expected {ev!r}; text {text!r}",
                )

        back = BeatValues.from_str(text)
        same(back, "from_str(str(bv))")
        need(back == bv, "BeatValues round trip not equal")
        need(str(back) == text, "second serialisation differs")
        # a parsed list belongs to the caller: editing it in place must not change what the same string parses to next
        back.append(BeatValue(Beat(999), D("9")))
        if len(back) > 1:
            del back[0]
        same(BeatValues.from_str(text), "from_str of the same string after the first result was edited in place")
        # decoration around rows
        rows = text.split(",\n") if text else []
        deco = case["deco"]
        pieces = []
        for i, r in enumerate(rows):
            pre, post = deco[(2 * i) % len(deco)], deco[(2 * i + 1) % len(deco)]
            pieces.append(pre + r + post)
        dtext = ",".join(pieces)
        if not rows:
            dtext = deco[0]
        same(BeatValues.from_str(dtext), f"decorated {dtext!r}")
        if not evs:
            need(len(BeatValues.from_str(None)) == 0, "from_str(None) not empty")

        # through simfiles
        from simfile.sm import SMSimfile
        from simfile.ssc import SSCChart, SSCSimfile

        which = case["slot"]  # which list carries the events
        off = case["offset"]
        bpm0 = "0.000=120.000"

        def fill(obj):
            for key in ("BPMS", "STOPS", "DELAYS", "WARPS"):
                if key == which:
                    obj[key] = dtext
                elif key == "BPMS":
                    obj[key] = bpm0
            if off is not None:
                obj["OFFSET"] = off

        exp_off = D(off.strip()) if off and off.strip() else D(0)
        makers = []
        sm = SMSimfile(string="")
        fill(sm)
        makers.append(("sm", lambda: TimingData(sm)))
        # FREEZES is an alias of STOPS on SM simfiles only, and only when the STOPS key is absent
        decoy = "7.000=7.000"
        if which == "STOPS":
            sm_alias = SMSimfile(string="")
            fill(sm_alias)
            sm_alias["FREEZES"] = sm_alias.pop("STOPS")
            makers.append(("sm-freezes-alias", lambda: TimingData(sm_alias)))
            sm_both = SMSimfile(string="")
            fill(sm_both)
            sm_both["FREEZES"] = decoy
            makers.append(("sm-stops-and-stale-freezes", lambda: TimingData(sm_both)))
        else:
            sm_empty = SMSimfile(string="")
            fill(sm_empty)
            sm_empty["STOPS"] = ""
            sm_empty["FREEZES"] = decoy
            makers.append(("sm-empty-stops-and-stale-freezes", lambda: TimingData(sm_empty)))
            ssc_decoy = SSCSimfile(string="#VERSION:0.83;")
            fill(ssc_decoy)
            ssc_decoy["FREEZES"] = decoy
            makers.append(("ssc-with-freezes-key", lambda: TimingData(ssc_decoy)))
        sm2 = SMSimfile(string=str(sm))
        makers.append(("sm-reloaded", lambda: TimingData(sm2)))
        ssc = SSCSimfile(string="#VERSION:0.83;")
        fill(ssc)
        makers.append(("ssc", lambda: TimingData(ssc)))
        ch = SSCChart()
        fill(ch)
        ch["NOTES"] = "0000\n0000\n0000\n0000\n"
        if ch.get(which, "").strip() or which != "BPMS":
            # chart timing is used when any chart timing property is non-empty (C15); BPMS is always non-empty here
            # unless the event list itself is the (empty) BPMS
            host = SSCSimfile(string="#VERSION:0.83;#BPMS:0.000=999.000;#OFFSET:9;")
            if any((ch.get(k) or "") for k in ("BPMS", "STOPS", "DELAYS", "WARPS")):
                makers.append(("ssc-chart", lambda: TimingData(host, ch)))
        from simfile.sm import SMChart
        from simfile.timing import Beat, BeatValue

        # a chart that carries no timing data of its own: the simfile stays the source
        makers.append(("sm-with-a-chart-without-timing", lambda: TimingData(sm, SMChart.blank())))
        makers.append(("ssc-with-a-chart-without-timing", lambda: TimingData(ssc, SSCChart.blank())))
        # simfiles without a single property: no events, offset zero
        for nm, empty in (("sm-without-any-key", SMSimfile(string="")), ("ssc-without-any-key", SSCSimfile(string=""))):
            td0 = TimingData(empty)
            need(len(td0.bpms) == len(td0.stops) == len(td0.delays) == len(td0.warps) == 0 and td0.offset == 0, f"TimingData({nm}): {td0!r}")
        carriers = []
        for rnd in (1, 2):
            # round 2: the same sources read again after the lists of the first objects were edited in place - every
            # TimingData owns its lists, nothing may be shared between objects or remembered per string
            carriers = [(n + (" (read again after in-place edits of earlier objects)" if rnd == 2 else ""), fn()) for n, fn in makers]
            for name, td in carriers:
                for key, attr in (("BPMS", "bpms"), ("STOPS", "stops"), ("DELAYS", "delays"), ("WARPS", "warps")):
                    got = getattr(td, attr)
                    if key == which:
                        same(got, f"TimingData({name}).{attr}")
                    elif key == "BPMS":
                        need(len(got) == 1 and got[0].beat == 0 and got[0].value.as_tuple() == D("120.000").as_tuple(), f"{name}: bpms {got!r}")
                    else:
                        need(len(got) == 0, f"{name}: {attr} should be empty, got {got!r}")
                need(
                    isinstance(td.offset, D) and td.offset == exp_off and (not (off and off.strip()) or td.offset.as_tuple() == exp_off.as_tuple()),
                    f"{name}: offset {td.offset!r}, expected {exp_off!r}",
                )
            if rnd == 1:
                for _n, td in carriers:
                    for attr in ("bpms", "stops", "delays", "warps"):
                        lst = getattr(td, attr)
                        lst.append(BeatValue(Beat(999), D("9.5")))
                        if len(lst) > 1:
                            del lst[0]
        labels = ["events", "slot:" + which]
        if any("E" in v.upper() for _, v in case["events"]):
            labels.append("exponent-form")
        if any(("\n" in d_ or "\r" in d_) for d_ in deco):
            labels.append("linebreak-deco")
        return Verdict(nontrivial=len(evs) > 0, evals=2 + len(carriers), labels=labels)

    raise Violation(f"unknown case kind {kind}")


# --------------------------------------------------------------------------------------
# generators


def _grid_iter(shard, nshards):
    chunks = []
    k = -GRID_K
    while k <= GRID_K:
        chunks.append((k, min(k + CHUNK, GRID_K + 1)))
        k += CHUNK
    for i, (lo, hi) in enumerate(chunks):
        if i % nshards == shard:
            yield {"kind": "grid", "lo": lo, "hi": hi}


frac = st.tuples(st.integers(-(10**5), 10**5), st.integers(1, 1000))
small_frac = st.tuples(st.integers(-200, 200), st.sampled_from([1, 2, 3, 4, 6, 8, 12, 16, 24, 48, 7, 96, 192, 1000, 32, 64, 64, 128, 256]))
operand = st.one_of(
    st.builds(lambda v: {"t": "frac", "v": list(v)}, st.one_of(frac, small_frac)),
    st.builds(lambda v: {"t": "int", "v": v}, st.integers(-50, 50)),
    st.builds(lambda v: {"t": "beat", "v": list(v)}, st.one_of(frac, small_frac)),
)


def s_exact():
    return st.builds(lambda v: {"kind": "exact", "n": v[0], "d": v[1]}, st.one_of(frac, small_frac, st.tuples(st.integers(-(10**9), 10**9), st.just(1))))


def s_arith():
    return st.builds(lambda a, b, sw: {"kind": "arith", "a": list(a), "b": b, "swap": sw}, st.one_of(frac, small_frac), operand, st.booleans())


def _dec_str(places=6, lim=10**7):
    return st.decimals(-lim, lim, places=places, allow_nan=False, allow_infinity=False).map(str)


@st.composite
def s_inexact(draw):
    mode = draw(st.integers(0, 5))
    if mode == 0:
        x = draw(st.floats(-1e7, 1e7, allow_nan=False, allow_infinity=False))
        return {"kind": "inexact", "form": "float", "v": repr(x)}
    if mode == 1:
        return {"kind": "inexact", "form": draw(st.sampled_from(["decimal", "str"])), "v": draw(_dec_str(draw(st.integers(0, 6))))}
    if mode == 2:
        # the double nearest to a midpoint between two ticks, (2k+1)/96: slightly off the midpoint, one neighbour is nearer
        k = draw(st.integers(-(10**6), 10**6))
        x = float(F(2 * k + 1, 96))
        step = draw(st.sampled_from([0, 0, 1, -1, 2, -2]))
        import math
        for _ in range(abs(step)):
            x = math.nextafter(x, math.inf if step > 0 else -math.inf)
        return {"kind": "inexact", "form": "float", "v": repr(x)}
    # constructed ties m/32 (m odd) and near ties
    m = draw(st.integers(-64000, 64000)) * 2 + 1
    tie = F(m, 32)
    eps_pow = draw(st.integers(6, 12))
    sign = draw(st.sampled_from([-1, 0, 1]))
    x = tie + sign * F(1, 10**eps_pow)
    form = draw(st.sampled_from(["float", "decimal", "str"]))
    if form == "float":
        return {"kind": "inexact", "form": "float", "v": repr(float(x))}
    # finite decimal: m/32 has 5 decimal places, eps adds up to 12
    dec = D(x.numerator) / D(x.denominator)
    if F(dec) != x:
        dec = D(tie.numerator) / D(tie.denominator)
    return {"kind": "inexact", "form": form, "v": str(dec)}


def s_bigtick():
    return st.builds(lambda k: {"kind": "bigtick", "k": k}, st.integers(-(10**7) * TICKS, 10**7 * TICKS))


VALUES = st.one_of(
    st.decimals(-(10**4), 10**4, places=6, allow_nan=False, allow_infinity=False).map(str),
    st.decimals(0, 2000, places=3, allow_nan=False, allow_infinity=False).map(str),
    st.sampled_from(["1E+2", "1.50", "-0.000", "0E-7", "120", "0.001", "1e3", "+5", "2.5E-3"]),
)
DECO = st.sampled_from(["", " ", "\n", "  ", "\r\n", "\t", " \n ", "\n\n"])


@st.composite
def s_events(draw):
    ks = draw(st.lists(st.integers(0, 2000 * TICKS), max_size=6, unique=True))
    ks.sort()
    evs = [[k, draw(VALUES)] for k in ks]
    slot = draw(st.sampled_from(["BPMS", "STOPS", "DELAYS", "WARPS"]))
    off = draw(st.one_of(st.none(), st.just(""), st.decimals(-100, 100, places=6, allow_nan=False, allow_infinity=False).map(str), st.sampled_from(["-0.009", " 1.5 ", "0", "1E-2"])))
    deco = draw(st.lists(DECO, min_size=1, max_size=4))
    return {"kind": "events", "events": evs, "slot": slot, "offset": off, "deco": deco}


def parts(tier):
    q = tier == "quick"
    return [
        # exact constructions and arithmetic run first in every shard process: they interleave float roundings with exact
        # constructions of the same values while any process-wide memo is still empty (the grid alone makes 12000 float calls)
        {"name": "exact", "kind": "hypothesis", "strategy": s_exact, "examples": 4000 if q else 16 * 20000},
        {"name": "arith", "kind": "hypothesis", "strategy": s_arith, "examples": 8000 if q else 16 * 40000},
        {"name": "tick-grid", "kind": "enum", "iter": _grid_iter, "exhaustive": True},
        {"name": "inexact", "kind": "hypothesis", "strategy": s_inexact, "examples": 8000 if q else 16 * 40000},
        {"name": "bigtick", "kind": "hypothesis", "strategy": s_bigtick, "examples": 4000 if q else 16 * 20000},
        {"name": "events", "kind": "hypothesis", "strategy": s_events, "examples": 3000 if q else 16 * 10000},
    ]
