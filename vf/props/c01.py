"""
C01 - SM simfile: serialize then parse gives back the same simfile.

Oracle: round trip through the strict parser compared with a dictionary/list model of the edit history, plus a
structural reading of the text with the trusted tokenizer (msdparser.parse_msd).
"""
import io
import re

from hypothesis import strategies as st

from .. import gen_simfile as GS
from .. import msdgap
from .. import simmodel as M
from ..core import Verdict, Violation

ID = "C01"
FMT = "sm"
LEVEL = "exploration"
RULE = (
    "edit histories applied to an SM simfile and to a dictionary/list model side by side: base = blank(), an empty "
    "simfile or an SM corpus file; operations = set/delete by key and by known-property attribute (aliases included), "
    "add/insert/remove/swap/replace/reverse charts, assign .charts, edit the six chart fields by attribute and by key, "
    "set/clear extradata; keys = upper-case strings other than NOTES (known keys, an adversarial alphabet of MSD "
    "metacharacters, arbitrary Unicode); values = None, '', single characters, metacharacter strings, arbitrary "
    "Unicode, strings crossing the lexer's 4096-character chunk. Generated (a) as direct constructions, (b) as "
    "Hypothesis op lists, (c) by a RuleBasedStateMachine that checks the round trip after every rule. msdparser's "
    "escaping gap is excluded by construction (context-free repair of every drawn string) and guarded by the exact "
    "predicate. Non-trivial = a key or value with an MSD metacharacter or line break, a None value, a chart with "
    "extra components, or >= 3 edits; distinct = distinct history JSON"
)
RULE += " " + "Added after the seeding rounds: a complete grid of small boundary constructions (an escaped-on-save token 0..3 characters before offset 256..8192 of the value or of the whole text), key/value pairs that coincide when glued or printed (a colon moved between key and value, None / 'None'), U+FEFF inside keys and values."
RULE += " " + 'Round 6: the boundary grid also uses round decimal sizes (500, 1000, 2000, 4000, 10000).'
RULE += " " + 'Round 7: first keys that start with VERSION followed by a metacharacter (VERSION/2, VERSION:, VERSION;X); values with a blank-only line.'
ASSUMPTIONS = [
    "msdparser.parse_msd is the trusted tokenizer",
    "values inside msdparser's escaping gap (DESIGN.md 4.1) are outside the domain (known findings, probed on every run)",
]
META = re.compile(r"[:;\\\r\n]|//")


def need(c, msg):
    if not c:
        raise Violation(msg)


def short(t, n=300):
    return repr(t if len(t) <= n else t[:n] + "...")


def roundtrip(interp, allow_gap=False):
    """the C01 oracle on the interpreter's current state; returns labels"""
    import simfile
    from msdparser import MSDParserError, parse_msd
    from simfile.sm import SMSimfile

    items, charts = interp.items, M.norm_sm_charts(interp.charts)
    emission = msdgap.emission_sm(items, charts)
    if msdgap.in_gap(emission) and not allow_gap:
        return None
    s = interp.obj
    o_items, o_charts = M.observe(s, "sm")
    need(o_items == items, f"the simfile's items {o_items[:6]} differ from the edit history's {items[:6]}")
    need(M.norm_sm_charts(o_charts) == charts, f"the simfile's charts differ from the edit history's: {o_charts[:2]} vs {charts[:2]}")
    try:
        t = str(s)
    except Exception as e:  # noqa
        raise Violation(f"str(simfile) raised {type(e).__name__}: {e}; items {items[:8]}, charts {charts[:2]}")
    buf = io.StringIO()
    s.serialize(buf)
    need(buf.getvalue() == t, "serialize(file) and str() produce different text")
    try:
        s2 = SMSimfile(string=t)
    except (MSDParserError, ValueError) as e:
        raise Violation(f"the strict parser rejects the serialized text: {type(e).__name__}: {e}; text {short(t)}")
    i2, c2 = M.observe(s2, "sm")
    need(i2 == items, f"properties after the round trip {i2[:8]} != before {items[:8]}; text {short(t)}")
    need(M.norm_sm_charts(c2) == charts, f"charts after the round trip {c2[:2]} != before {charts[:2]}; text {short(t)}")
    need(s2 == s and not (s2 != s), "round-tripped simfile does not compare equal")
    need(str(s2) == t, f"serializing the round-tripped simfile changes the text; text {short(t)}")
    # structure, read with the trusted tokenizer
    params = list(parse_msd(string=t))
    notes_params = [p for p in params if p.key == "NOTES"]
    need(len(notes_params) == len(charts), f"{len(notes_params)} NOTES parameters for {len(charts)} charts")
    for p, c in zip(notes_params, charts):
        comps = list(p.components[1:])
        need(len(comps) == 6 + len(c["extra"] or []), f"NOTES parameter has {len(comps)} value components")
        need([x.strip() for x in comps[:6]] == c["fields"], f"the first six NOTES components {comps[:6]} are not the chart's fields {c['fields']}")
        need(comps[6:] == list(c["extra"] or []), "extra components differ")
    others = [p for p in params if p.key != "NOTES"]
    need(len(others) == len(items), f"{len(others)} property parameters for {len(items)} properties")
    for p, (k, v) in zip(others, items):
        need(p.key == k, f"parameter key {p.key!r} for property {k!r}")
        if k in msdgap.MULTI and v is not None:
            need(list(p.components[1:]) == v.split(":"), f"{k} value {v!r} written as components {p.components[1:]}, expected unescaped colon-delimited components")
        elif v is None:
            need(len(p.components) == 1, f"key-only property {k!r} written with components {p.components}")
        else:
            need(list(p.components[1:]) == [v], f"{k} written as {p.components[1:]}")
    # auto-detection
    if not items or items[0][0] != "VERSION":
        if params and params[0].key.upper() != "VERSION":
            s3 = simfile.loads(t)
            need(type(s3) is SMSimfile, f"loads() detects {type(s3).__name__} for an SM simfile; text {short(t)}")
            need(s3 == s2, "loads() result differs from SMSimfile(string=...)")
    labels = set(interp.labels)
    if any(v is None for _, v in items):
        labels.add("none-value")
    if any(META.search(k) or (v and META.search(v)) for k, v in items) or any(META.search(f) for c in charts for f in c["fields"][:5]):
        labels.add("metachar")
    if any(c["extra"] for c in charts):
        labels.add("extradata")
    if any(k in msdgap.MULTI and v and ":" in v for k, v in items):
        labels.add("multi-value")
    if any(len(t_) > 4096 for t_ in [t]):
        labels.add("text>4096")
    return labels


def check(case):
    interp = M.Interp(FMT, case["base"])
    labels = set()
    checked = 0
    gap = 0
    for op in case["ops"] + [["check"]]:
        interp.step(op)
        if op[0] == "check" or case.get("check_each"):
            r = roundtrip(interp, allow_gap=bool(case.get("allow_gap")))
            if r is None:
                gap += 1
            else:
                checked += 1
                labels |= r
    if checked == 0:
        return Verdict(excluded="state inside msdparser's escaping gap (leftover of the repair)")
    labels.add("base:" + case["base"].split(":")[0])
    nontrivial = bool(labels & {"none-value", "metachar", "extradata"}) or len(case["ops"]) >= 3
    return Verdict(nontrivial=nontrivial, labels=sorted(labels), evals=checked)


# ----------------------------------------------------------------------------------------------


def machine_factory(fmt, roundtrip_fn, base_strategy=None):
    from hypothesis.stateful import RuleBasedStateMachine, initialize, invariant, rule

    class SimfileMachine(RuleBasedStateMachine):
        STATS = None
        PART = "machine"
        LAST = None

        def __init__(self):
            super().__init__()
            self.ops = []
            self.base = None
            self.interp = None
            self.labels = set()
            self.checked = 0
            self.failed = False

        @initialize(base=GS.bases(fmt))
        def start(self, base):
            self.base = base
            self.interp = M.Interp(fmt, base)

        @rule(op=GS.sim_ops(fmt))
        def edit(self, op):
            self.ops.append(op)
            try:
                self.interp.step(op)
            except BaseException:
                self.failed = True
                raise

        @invariant()
        def round_trip_holds(self):
            if self.interp is None:
                return
            try:
                r = roundtrip_fn(self.interp)
            except BaseException:
                self.failed = True
                raise
            if r is not None:
                self.checked += 1
                self.labels |= r

        def case(self):
            return {"kind": "history", "fmt": fmt, "base": self.base or "empty", "ops": list(self.ops), "check_each": True}

        def teardown(self):
            case = self.case()
            type(self).LAST = case
            if not self.failed and self.interp is not None and type(self).STATS is not None:
                labels = set(self.labels) | {"machine"}
                nontrivial = bool(labels & {"none-value", "metachar", "extradata", "notes-shared", "notes2", "notes-not-last"}) or len(self.ops) >= 3
                if self.checked:
                    type(self).STATS.record(case, Verdict(nontrivial=nontrivial, labels=sorted(labels), evals=self.checked), part=type(self).PART)

    return SimfileMachine


def wrap_unexpected(fn):
    """library exceptions inside a machine step must surface as Violation so the machine run is classified"""
    from ..core import is_library_exception

    def inner(interp):
        try:
            return fn(interp)
        except Violation:
            raise
        except Exception as e:  # noqa
            if is_library_exception(e):
                raise Violation(f"unexpected {type(e).__name__} from the library: {e}")
            raise

    return inner


def parts(tier):
    q = tier == "quick"
    return [
        {"name": "constructions", "kind": "hypothesis", "strategy": lambda: GS.constructions(FMT), "examples": 2500 if q else 16 * 6000},
        {"name": "boundary-sized", "kind": "hypothesis", "strategy": lambda: GS.boundary_constructions(FMT), "examples": 192 if q else 16 * 80},
        {"name": "boundary-grid", "kind": "fixed", "cases": lambda: GS.boundary_grid(FMT)},
        {"name": "histories", "kind": "hypothesis", "strategy": lambda: GS.histories(FMT), "examples": 1500 if q else 16 * 3000},
        {"name": "machine", "kind": "machine", "factory": lambda: machine_factory(FMT, wrap_unexpected(roundtrip)), "examples": 300 if q else 16 * 500, "steps": 25 if q else 50},
    ]
