"""
C16 - SM -> SSC conversion keeps every property, chart, timing and note.

Oracle (written from the property text and the docstring of sm_to_ssc, not from convert.py):
  expected properties = template pairs (SSCSimfile.blank() when no template is supplied) overridden by every source
  pair; expected charts = the template's charts followed by one chart per source chart whose six fields are the
  source's and whose other keys are the chart template's (SSCChart.blank() when none is supplied); timing and notes
  are compared through the library's public readers (TimingData, NoteData) on source and result; the source and the
  templates are compared with plain-data snapshots taken before the call (and again after the result was edited);
  the result's text is loaded back with SSCSimfile(string=...); a negative BPM / stop value (found with an own
  parser of the timing string) must give NotImplementedError.
"""
import os
from decimal import Decimal

from hypothesis import strategies as st

from .. import core
from .. import gen_convert as G
from ..core import Verdict, Violation

ID = "C16"
LEVEL = "exploration"
RULE = (
    "Hypothesis draws a plain-data SM source (blank or empty base; OFFSET, BPMS, STOPS always present with well-formed "
    "tick-aligned timing lists, DELAYS/WARPS optional; 0-6 further keys from known SM keys, ANIMATIONS/FREEZES "
    "(beside STOPS), SSC-only keys (VERSION numeric), keys over an adversarial alphabet; values incl. None, '', single "
    "characters, MSD metacharacters; 0-3 charts with generated note data and 0-2 extra components), an optional SSC "
    "simfile template (empty, properties only, properties+charts, charts only) and an optional SSC chart template "
    "(empty, blank-based, sparse; NOTES last when present; chart-timing trigger keys only empty); a second part puts "
    "a negative value into BPMS and/or STOPS; the SM corpus file is converted under four template set-ups. Values in "
    "msdparser's escaping gap are repaired by construction (label 'gap-repaired'). FREEZES instead of STOPS is never "
    "generated (known finding, probed). non-trivial = at least one chart, a supplied template, an SSC-only key, the "
    "ANIMATIONS alias or a negative value; distinct = distinct canonical JSON of the case"
)
RULE += " " + "Added after the seeding rounds: stops of length zero and minus zero ('-0.000', '-0', '= -0.000') are not negative and must be converted."
RULE += " " + 'Round 7: era names among the six chart fields (Basic, Light, Heavy, Maniac, Oni, Expert ...; steps types in other spellings) - copied as they are.'
ASSUMPTIONS = [
    "SSCSimfile.blank() / SSCChart.blank() are the documented default templates and are read through the public API",
    "TimingData and NoteData are the library's readers named by the property; their own correctness is C07/C14/C15",
    "msdparser's tokenizer/serializer is trusted outside the escaping gap of DESIGN.md 4.1 (kept out by repair)",
    "SSC reload relation is C02's: each chart's note item may move last; plain equality when it already is last",
]

SIX = G.SIX
SSC_ONLY = (
    "VERSION", "ORIGIN", "LABELS", "MUSICLENGTH", "LASTSECONDHINT", "PREVIEWVID", "JACKET", "CDIMAGE", "DISCIMAGE",
    "PREVIEW", "COMBOS", "SPEEDS", "SCROLLS", "FAKES", "WARPS",
)
# chart properties that switch an SSC chart to its own timing when non-empty (documented in TimingData / C15)
CHART_TIMING_TRIGGERS = (
    "BPMS", "STOPS", "DELAYS", "TIMESIGNATURES", "TICKCOUNTS", "COMBOS", "WARPS", "SPEEDS", "SCROLLS", "FAKES", "LABELS",
)


def need(cond, msg):
    """msg: a string or a zero-argument callable producing it (hot paths keep their messages lazy)"""
    if not cond:
        raise Violation(msg() if callable(msg) else msg)


def _has_negative(s):
    """own reading of a timing list: is any value below zero?"""
    if not s or not s.strip():
        return False
    for row in s.split(","):
        _, _, v = row.strip().partition("=")
        if Decimal(v) < 0:
            return True
    return False


def _timing(td):
    return {
        "bpms": [(b.beat, b.value) for b in td.bpms],
        "stops": [(b.beat, b.value) for b in td.stops],
        "delays": [(b.beat, b.value) for b in td.delays],
        "warps": [(b.beat, b.value) for b in td.warps],
        "offset": td.offset,
    }


def _short(x, n=300):
    s = repr(x)
    return s if len(s) <= n else s[:n] + "..."


def check(case):
    import simfile
    from simfile.convert import sm_to_ssc
    from simfile.notes import NoteData
    from simfile.ssc import SSCChart, SSCSimfile
    from simfile.timing import TimingData

    kind = case["kind"]
    if kind == "corpus":
        sm = simfile.open(os.path.join(core.REPO_ROOT, "testdata", case["file"]))
    else:
        sm = G.build_sm(case["src"])
    stmpl = G.build_ssc(case["stmpl"]) if case.get("stmpl") is not None else None
    ctmpl = G.build_ssc_chart(case["ctmpl"]) if case.get("ctmpl") is not None else None

    src_snap = G.snap_sm(sm)
    st_snap = G.snap_ssc(stmpl) if stmpl is not None else None
    ct_snap = [(k, v) for k, v in ctmpl.items()] if ctmpl is not None else None
    src_pairs, src_charts = src_snap
    src_map = dict(src_pairs)

    def unmodified(when):
        need(G.snap_sm(sm) == src_snap, lambda: f"source modified {when}: now {_short(G.snap_sm(sm))}, before {_short(src_snap)}")
        if stmpl is not None:
            need(G.snap_ssc(stmpl) == st_snap, lambda: f"simfile template modified {when}: now {_short(G.snap_ssc(stmpl))}, before {_short(st_snap)}")
        if ctmpl is not None:
            now = [(k, v) for k, v in ctmpl.items()]
            need(now == ct_snap, lambda: f"chart template modified {when}: now {_short(now)}, before {_short(ct_snap)}")

    labels = ["kind:" + kind, "charts:%d" % len(src_charts)]
    labels.append("stmpl:" + ("none" if stmpl is None else ("empty" if not st_snap[0] and not st_snap[1] else ("charts-only" if not st_snap[0] else ("props+charts" if st_snap[1] else "props")))))
    labels.append("ctmpl:" + ("none" if ctmpl is None else ("empty" if not ct_snap else ("lacks-fields" if any(k not in dict(ct_snap) for k in SIX) else "full"))))
    if case.get("repaired"):
        labels.append("gap-repaired")
    if any(v is None for _, v in src_pairs):
        labels.append("none-value")
    if "ANIMATIONS" in src_map and "BGCHANGES" not in src_map:
        labels.append("alias:ANIMATIONS")
    ssc_only = any(k in src_map for k in SSC_ONLY)
    if ssc_only:
        labels.append("ssc-only-key")

    # refusal clause: own reading of the source's BPMS and STOPS
    neg_bpm = _has_negative(src_map.get("BPMS"))
    neg_stop = _has_negative(src_map.get("STOPS"))
    negative = neg_bpm or neg_stop

    try:
        result = sm_to_ssc(sm, simfile_template=stmpl, chart_template=ctmpl)
    except NotImplementedError:
        need(negative, lambda: f"NotImplementedError for a source without negative BPM/stop values: BPMS={src_map.get('BPMS')!r} STOPS={src_map.get('STOPS')!r}")
        unmodified("by a refused conversion")
        labels.append("refused:" + ("both" if neg_bpm and neg_stop else ("bpm" if neg_bpm else "stop")))
        return Verdict(nontrivial=True, labels=labels)
    need(not negative, lambda: f"negative value converted instead of NotImplementedError: BPMS={src_map.get('BPMS')!r} STOPS={src_map.get('STOPS')!r}")

    need(type(result) is SSCSimfile, lambda: f"result is {type(result).__name__}, not SSCSimfile")

    # ---- properties
    if stmpl is not None:
        base_pairs, base_charts = st_snap
    else:
        blank = SSCSimfile.blank()
        base_pairs, base_charts = G.snap_ssc(blank)
    expected = dict(base_pairs)
    expected.update(src_map)
    got = dict(result.items())
    for k, v in src_pairs:
        need(k in got, lambda: f"source property {k!r}={v!r} missing from the result; result keys {_short(list(got))}")
        need(got[k] == v and type(got[k]) is type(v), lambda: f"source property {k!r}: result has {got[k]!r}, source {v!r}")
    for k, v in base_pairs:
        if k not in src_map:
            need(k in got, lambda: f"template property {k!r}={v!r} (absent from the source) missing from the result")
            need(got[k] == v, lambda: f"property {k!r} absent from the source: result has {got[k]!r}, template/blank has {v!r}")
    extra = [k for k in got if k not in expected]
    need(not extra, lambda: f"result has properties that are neither the source's nor the template's: {extra!r}")
    if stmpl is not None and any(k in src_map and src_map[k] != v for k, v in base_pairs):
        labels.append("template-key-overridden")

    # ---- charts
    nt, ns = len(base_charts), len(src_charts)
    rcharts = list(result.charts)
    need(len(rcharts) == nt + ns, lambda: f"result has {len(rcharts)} charts, expected {nt} template + {ns} source charts")
    for i in range(nt):
        now = [(k, v) for k, v in rcharts[i].items()]
        need(now == base_charts[i], lambda: f"template chart {i} changed in the result: {_short(now)} vs {_short(base_charts[i])}")
    if ctmpl is not None:
        cbase = ct_snap
    else:
        cbase = [(k, v) for k, v in SSCChart.blank().items()]
    cbase_map = dict(cbase)
    res_td = _timing(TimingData(result))
    src_td = _timing(TimingData(sm))
    for f in ("bpms", "stops", "delays", "warps", "offset"):
        need(res_td[f] == src_td[f], lambda: f"timing: TimingData(result).{f} = {_short(res_td[f])} but the source's is {_short(src_td[f])}")
    for j in range(ns):
        rc = rcharts[nt + j]
        sc = sm.charts[j]
        fields, _extra = src_charts[j]
        need(type(rc) is SSCChart, lambda: f"chart {j} of the result is {type(rc).__name__}")
        cgot = dict(rc.items())
        for k, v in zip(SIX, fields):
            need(k in cgot and cgot[k] == v, lambda: f"chart {j} field {k}: result {cgot.get(k)!r}, source {v!r}")
        for k, v in cbase:
            if k not in SIX:
                need(k in cgot and cgot[k] == v, lambda: f"chart {j} property {k!r} should come from the chart template/blank ({v!r}), result has {cgot.get(k)!r}")
        extra = [k for k in cgot if k not in cbase_map and k not in SIX]
        need(not extra, lambda: f"chart {j} has properties from nowhere: {extra!r}")
        n_src = list(NoteData(sc))
        n_res = list(NoteData(rc))
        need(n_src == n_res, lambda: f"chart {j}: notes differ, source {_short(n_src)} result {_short(n_res)}")
        t_src = _timing(TimingData(sm, sc))
        t_res = _timing(TimingData(result, rc))
        for f in ("bpms", "stops", "delays", "warps", "offset"):
            need(t_res[f] == t_src[f], lambda: f"timing of chart {j}: TimingData(result, chart).{f} = {_short(t_res[f])} but the source's is {_short(t_src[f])}")

    # ---- nothing shared, nothing modified
    unmodified("by the conversion")
    foreign = [("source chart", c) for c in sm.charts]
    if stmpl is not None:
        need(result is not stmpl, "the result is the simfile template object itself")
        need(result.charts is not stmpl.charts, "the result's chart list is the template's chart list")
        foreign += [("simfile template chart", c) for c in stmpl.charts]
    need(result.charts is not sm.charts, "the result's chart list is the source's chart list")
    if ctmpl is not None:
        foreign.append(("chart template", ctmpl))
    for i, rc in enumerate(rcharts):
        for what, c in foreign:
            need(rc is not c, lambda: f"chart {i} of the result is the {what} object itself")
        for i2 in range(i):
            need(rc is not rcharts[i2], lambda: f"charts {i2} and {i} of the result are one object")

    # ---- reload
    r_pairs, r_charts = G.snap_ssc(result)
    if G.in_gap(G.ssc_emission(r_pairs, r_charts)):
        labels.append("reload-skipped:gap-leftover")
    else:
        text = str(result)
        back = SSCSimfile(string=text)
        b_pairs, b_charts = G.snap_ssc(back)
        need(b_pairs == r_pairs, lambda: f"reload: properties differ: {_short(b_pairs)} vs result {_short(r_pairs)}; text {_short(text)}")
        need(len(b_charts) == len(r_charts), lambda: f"reload: {len(b_charts)} charts, result has {len(r_charts)}; text {_short(text)}")
        all_last = True
        for i, (bi, ri) in enumerate(zip(b_charts, r_charts)):
            keys = [k for k, _ in ri]
            nk = "NOTES" if "NOTES" in keys or "NOTES2" not in keys else "NOTES2"
            moved = [p for p in ri if p[0] != nk] + [p for p in ri if p[0] == nk]
            if moved != ri:
                all_last = False
            need(bi == moved, lambda: f"reload: chart {i} differs: {_short(bi)} vs result (note item last) {_short(moved)}")
        if all_last:
            need(back == result, lambda: f"reload: every chart ends with its note data but the reloaded simfile != result; text {_short(text)}")
            labels.append("reload:plain")
        else:
            labels.append("reload:modulo-notes-last")

    # ---- editing the result must not reach the source or the templates
    result["VF-EDIT"] = "x"
    for rc in rcharts:
        rc["VF-EDIT"] = "x"
        rc["STEPSTYPE"] = "vf-edited"
    result.charts.append(SSCChart())
    unmodified("by editing the result (shared mutable object)")

    nontrivial = ns > 0 or stmpl is not None or ctmpl is not None or ssc_only or "alias:ANIMATIONS" in labels
    return Verdict(nontrivial=nontrivial, labels=labels, evals=1 + ns)


# --------------------------------------------------------------------------------------
# generators

SM_KEYS = [
    "TITLE", "SUBTITLE", "ARTIST", "GENRE", "CREDIT", "BANNER", "BACKGROUND", "CDTITLE", "MUSIC", "SAMPLESTART",
    "SELECTABLE", "BGCHANGES", "FGCHANGES", "KEYSOUNDS", "TICKCOUNTS", "TIMESIGNATURES", "INSTRUMENTTRACK", "LYRICSPATH",
]
SSC_ONLY_FREE = [k for k in SSC_ONLY if k not in ("VERSION", "WARPS")]
VERSIONS = st.sampled_from(["0.83", "0.83", "0.5", "1", "0.7", "0.69", "0.70", ""])
RESERVED = ("NOTES", "NOTEDATA")


@st.composite
def _free_pair(draw):
    """one non-timing pair of an SM source / SSC template"""
    sel = draw(st.sampled_from(range(10)))
    if sel <= 2:
        k = draw(st.sampled_from(SM_KEYS))
    elif sel == 3:
        k = draw(st.sampled_from(G.MULTI))
        return [k, draw(st.one_of(G.value(allow_none=False), st.sampled_from(["120:150", "*", "a:b:c", "TIME=1:END=2"])))]
    elif sel == 4:
        k = draw(st.sampled_from(["ANIMATIONS", "ANIMATIONS", "FREEZES"]))
    elif sel <= 6:
        k = draw(st.sampled_from(SSC_ONLY_FREE))
    elif sel == 7:
        return ["VERSION", draw(VERSIONS)]
    else:
        k = draw(G.odd_key())
    return [k, draw(G.value())]


def _dedup(pairs):
    seen, out = set(), []
    for k, v in pairs:
        if k not in seen:
            seen.add(k)
            out.append([k, v])
    return out


@st.composite
def _sm_chart(draw):
    fields = [draw(G.value(allow_none=False)).strip() for _ in range(5)]
    if draw(st.integers(0, 2)) == 0:
        # names a converter might feel entitled to "modernise": the six fields are copied as they are
        fields[0] = draw(st.sampled_from(["dance-single", "dance-double", "pump-single", "dance-couple", "DANCE-SINGLE", "ez2-single"]))
        fields[2] = draw(st.sampled_from(["Basic", "Light", "Heavy", "Maniac", "Oni", "Expert", "Another", "Trick", "Standard", "SManiac",
                                          "Beginner", "Easy", "Medium", "Hard", "Challenge", "Edit", "basic", "HEAVY", "smaniac"]))
    if draw(st.integers(0, 2)) == 0:
        fields[0] = draw(st.sampled_from(["dance-single", "dance-double", "pump-routine"]))
        fields[3] = draw(st.sampled_from(["1", "9", "0"]))
    fields.append(draw(G.notedata()))
    if draw(st.sampled_from([False] * 7 + [True])):
        # one-character note data equal to another field: CPython interns such strings (one object)
        fields[5] = draw(st.sampled_from(["1", "0", "M"]))
        fields[draw(st.sampled_from([3, 1, 0, 2, 4]))] = fields[5]
    extra = draw(st.one_of(st.none(), st.lists(G.value(allow_none=False), max_size=2)))
    return {"fields": fields, "extra": extra}


@st.composite
def _ssc_chart_items(draw, as_template):
    """items of an SSC chart that ends with its note data.  as_template: chart template for converted charts (no
    non-empty chart-timing trigger, NOTES rather than NOTES2)."""
    n = draw(st.integers(0, 6))
    items = []
    for _ in range(n):
        sel = draw(st.sampled_from(range(6)))
        if sel <= 1:
            items.append([draw(st.sampled_from(SIX[:5])), draw(G.value(allow_none=False))])
        elif sel == 2:
            items.append([draw(st.sampled_from(["CHARTNAME", "CHARTSTYLE", "CREDIT", "MUSIC", "OFFSET"])), draw(G.value())])
        elif sel == 3:
            k = draw(st.sampled_from(CHART_TIMING_TRIGGERS))
            if as_template:
                items.append([k, draw(st.sampled_from(["", "", None]))])
            else:
                items.append([k, draw(st.sampled_from(["", "0.000=1", "4.000=2.000"]))])
        elif sel == 4:
            items.append([draw(st.sampled_from(G.MULTI)), draw(G.value(allow_none=False))])
        else:
            items.append([draw(G.odd_key()), draw(G.value())])
    items = [p for p in _dedup(items) if p[0] not in ("NOTES", "NOTES2", "NOTEDATA")]
    has_notes = draw(st.integers(0, 3)) > 0 if as_template else True
    if has_notes:
        # a chart template may spell its note data NOTES2: the converted chart then holds the template's NOTES2 and, last,
        # the source's NOTES (which is what the notes property and every reader use)
        nk = "NOTES" if draw(st.integers(0, 3)) > 0 else "NOTES2"
        items.append([nk, draw(G.notedata())])
    return items


BLANK_SSC_DEFAULTS = {
    "TIMESIGNATURES": "0.000=4=4", "TICKCOUNTS": "0.000=4", "COMBOS": "0.000=1", "SPEEDS": "0.000=1.000=0.000=0",
    "SCROLLS": "0.000=1.000", "LABELS": "0.000=Song Start",
}


@st.composite
def s_convert(draw, negative=False):
    # ---- source
    timing = [["OFFSET", draw(G.OFFSETS)], ["BPMS", draw(G.bpms())], ["STOPS", draw(G.stops())]]
    if draw(st.booleans()):
        timing.append(["DELAYS", draw(G.stops())])
    if draw(st.sampled_from(range(4))) == 0:
        timing.append(["WARPS", draw(G.warps())])
    if draw(st.sampled_from(range(6))) == 0:
        # a stop of length zero is not negative
        # ... and neither is one of length minus zero ("-0.000" is a signed zero, not a value below zero)
        timing[2][1] = (timing[2][1] + "," if timing[2][1] else "") + draw(st.sampled_from(["9600.000=0.000", "9600.000=-0.000", "9600.000=-0", "9600.000= -0.000"]))
    if negative:
        where = draw(st.sampled_from(["BPMS", "STOPS", "STOPS", "both"]))
        for idx, key in ((1, "BPMS"), (2, "STOPS")):
            if where in (key, "both"):
                rows = [r for r in timing[idx][1].split(",") if r.strip()]
                if not rows:
                    rows = ["4.000=1.000"]
                i = draw(st.integers(0, len(rows) - 1))
                b, _, v = rows[i].partition("=")
                # the library's reader accepts blanks around the numbers ("4.000= -60.000"): still a negative value
                eq = draw(st.sampled_from(["=", "=", "= ", " = ", " =", "=\t"]))
                rows[i] = b + eq + "-" + (v if Decimal(v) != 0 else "0.001")
                if draw(st.integers(0, 2)) == 0:
                    # the negative entry is followed by another entry on the very same beat (or a beat rounding to the
                    # same tick): the list still includes a negative value
                    rows.insert(i + 1, (b if draw(st.booleans()) else f"{Decimal(b) + Decimal('0.004'):.3f}") + "=" + (v if Decimal(v) != 0 else "0.001"))
                timing[idx][1] = ",".join(rows)
    others = draw(st.lists(_free_pair(), max_size=6))
    if draw(st.sampled_from([False] * 4 + [True])):
        others.insert(0, [draw(st.sampled_from(SM_KEYS + SSC_ONLY_FREE)), None])  # key-only parameter
    if draw(st.integers(0, 4)) == 0:
        # SSC-only keys carried by the SM source with exactly the value a blank SSC simfile has for them
        for k in draw(st.lists(st.sampled_from(sorted(BLANK_SSC_DEFAULTS)), min_size=1, max_size=3, unique=True)):
            others.append([k, BLANK_SSC_DEFAULTS[k]])
    others = _dedup(others)
    tkeys = {p[0] for p in timing}
    others = [p for p in others if p[0] not in tkeys]
    props = draw(st.permutations(timing + others))
    src = {
        "base": draw(st.sampled_from(["blank", "blank", "empty"])),
        "del": [],
        "props": [list(p) for p in props],
        "charts": [draw(_sm_chart()) for _ in range(draw(st.sampled_from([0, 0, 1, 1, 2, 3])))],
    }
    has = {p[0] for p in src["props"]}

    # ---- simfile template
    stmpl = None
    mode = draw(st.sampled_from(["none", "none", "none", "empty", "props", "props", "props+charts", "props+charts", "charts-only"]))
    if mode != "none":
        stmpl = {"base": "empty", "del": [], "props": [], "charts": []}
        if mode in ("props", "props+charts"):
            stmpl["base"] = draw(st.sampled_from(["blank", "empty", "empty"]))
            tp = _dedup(draw(st.lists(_free_pair(), max_size=5)))
            # keys the source also has, with other values: they must be overridden
            for k in draw(st.lists(st.sampled_from(sorted(has)), max_size=3, unique=True)):
                if k in ("BPMS",):
                    tp.append([k, "0.000=999.000"])
                elif k in ("STOPS", "DELAYS"):
                    tp.append([k, "1.000=9.000"])
                elif k == "WARPS":
                    tp.append([k, "1.000=9.000"])
                elif k == "OFFSET":
                    tp.append([k, "99"])
                elif k == "VERSION":
                    tp.append([k, "0.99"])
                else:
                    tp.append([k, draw(st.sampled_from(["template value", "", "t"]))])
            tp = _dedup(tp)
            # DELAYS / WARPS the source lacks may only be empty in the template
            for p in tp:
                if p[0] in ("DELAYS", "WARPS") and p[0] not in has:
                    p[1] = draw(st.sampled_from(["", None]))
                if p[0] == "VERSION" and "VERSION" not in has and (p[1] is None or p[1] == "0.99"):
                    p[1] = "0.83"
            if not tp and stmpl["base"] == "empty":
                tp = [["VERSION", "0.83"], ["GENRE", "tmpl"]]
            stmpl["props"] = tp
            if stmpl["base"] == "blank":
                stmpl["del"] = draw(st.lists(st.sampled_from(["TITLE", "LABELS", "VERSION", "STOPS", "ATTACKS"]), max_size=2, unique=True))
        if mode in ("props+charts", "charts-only"):
            stmpl["charts"] = [
                {"base": draw(st.sampled_from(["empty", "blank"])), "del": [], "items": draw(_ssc_chart_items(False))}
                for _ in range(draw(st.integers(1, 2)))
            ]
            for c in stmpl["charts"]:
                if c["base"] == "blank":
                    # the blank chart's own NOTES must stay last: re-assigning keeps its position, so drop it first
                    c["del"] = ["NOTES"]

    # ---- chart template
    ctmpl = None
    cmode = draw(st.sampled_from(["none", "none", "empty", "blank", "sparse", "sparse"]))
    if cmode == "empty":
        ctmpl = {"base": "empty", "del": [], "items": []}
    elif cmode == "blank":
        ctmpl = {"base": "blank", "del": ["NOTES"], "items": draw(_ssc_chart_items(True))}
        if not any(p[0] == "NOTES" for p in ctmpl["items"]):
            if draw(st.booleans()):
                ctmpl["items"].append(["NOTES", "0000\n0000\n0000\n0000"])
    elif cmode == "sparse":
        ctmpl = {"base": "empty", "del": [], "items": draw(_ssc_chart_items(True))}

    case = {"kind": "neg" if negative else "convert", "src": src, "stmpl": stmpl, "ctmpl": ctmpl, "repaired": 0}
    _repair_case(case)
    return case


def _repair_pairs(pairs, forbid=RESERVED):
    """repair a list of [key, value] in place; returns the number of repaired strings"""
    n = 0
    out = []
    seen = set()
    for k, v in pairs:
        k2, r = G.repair_key(k)
        n += r
        while k2 in forbid:
            k2 += "_"
            n += 1
        v2, r = G.repair_text(v)
        n += r
        v2, r = G.repair_pair(k2, v2)
        n += r
        if k2 in seen:
            continue
        seen.add(k2)
        out.append([k2, v2])
    pairs[:] = out
    return n


def _repair_case(case):
    n = _repair_pairs(case["src"]["props"])
    for c in case["src"]["charts"]:
        for i, f in enumerate(c["fields"]):
            c["fields"][i], r = G.repair_text(f)
            n += r
    if case["stmpl"] is not None:
        n += _repair_pairs(case["stmpl"]["props"])
        for c in case["stmpl"]["charts"]:
            n += _repair_pairs(c["items"], forbid=("NOTEDATA",))
    if case["ctmpl"] is not None:
        n += _repair_pairs(case["ctmpl"]["items"], forbid=("NOTEDATA",))
    case["repaired"] = n


def _corpus_cases():
    tmpl_props = {"base": "empty", "del": [], "props": [["VERSION", "0.83"], ["GENRE", "from template"], ["TITLE", "overridden"], ["ORIGIN", "o"]], "charts": []}
    tmpl_charts = {
        "base": "blank", "del": ["TITLE"], "props": [["LABELS", "0.000=x"]],
        "charts": [{"base": "blank", "del": [], "items": [["CHARTNAME", "kept"]]}],
    }
    ct = {"base": "empty", "del": [], "items": [["CHARTNAME", "cn"], ["CREDIT", "me"], ["STEPSTYPE", "overridden"], ["NOTES", "1111"]]}
    f = "nekonabe/nekonabe.sm"
    return [
        {"kind": "corpus", "file": f, "stmpl": None, "ctmpl": None},
        {"kind": "corpus", "file": f, "stmpl": tmpl_props, "ctmpl": ct},
        {"kind": "corpus", "file": f, "stmpl": tmpl_charts, "ctmpl": {"base": "blank", "del": [], "items": []}},
        {"kind": "corpus", "file": f, "stmpl": {"base": "empty", "del": [], "props": [], "charts": []}, "ctmpl": {"base": "empty", "del": [], "items": []}},
    ]


def parts(tier):
    q = tier == "quick"
    return [
        {"name": "corpus", "kind": "fixed", "cases": _corpus_cases},
        {"name": "convert", "kind": "hypothesis", "strategy": lambda: s_convert(False), "examples": 4000 if q else 16 * 8000},
        {"name": "negative", "kind": "hypothesis", "strategy": lambda: s_convert(True), "examples": 800 if q else 16 * 1500},
    ]
