"""
C20 - Asset lookup: the named file if it exists, else a pattern match, else None; pack banner by extension priority.

A case is plain data: file names in a simfile directory (and in its sub-directories), the simfile's asset
properties, the filesystem flavour.  `check` builds the directory in a scratch location (native temp dir or
fs.memoryfs.MemoryFS), asks simfile.assets.Assets / simfile.dir.SimfilePack.banner() and compares with a model that
is an own transcription of the documented patterns, evaluated over the listing the same filesystem reports.
"""
import os
import shutil
import tempfile

from hypothesis import strategies as st

from ..core import Verdict, Violation

ID = "C20"
LEVEL = "exploration"
RULE = (
    "part 'assets' (Hypothesis): a simfile directory with up to 12 entries (per asset kind a planted hit with probability 1/2, plus entries) drawn from name pools that hit, nearly hit "
    "and miss each documented pattern in mixed case (image-extension names only for image stems; audio / other files "
    "with stems that match no image pattern), two optional sub-directories with up to 3 files each, and for each of "
    "BANNER, BACKGROUND, CDTITLE, JACKET, CDIMAGE, MUSIC the property absent / empty / naming an existing entry "
    "(same or other letter case, top level or inside a sub-directory) / naming a missing file (also a near-miss "
    "spelling of an existing one) / naming a file in a missing sub-directory; DISC and DISCIMAGE never set; simfile "
    "SM or SSC, handed to Assets or written into the directory and loaded by Assets / SimfileDirectory.assets(); "
    "native temp dir or MemoryFS; directory argument with or without a trailing separator; all seven attributes "
    "queried in a drawn order, each twice. part 'pack-banner' (Hypothesis): a pack directory with 0..4 images "
    "(mixed-case extensions), other files and song directories inside, and beside it images carrying the pack's name "
    "with lower-case extensions, near-miss names and other files. Non-trivial = at least one lookup is decided by a "
    "specified existing file, or by a pattern among >= 1 near-miss/other entries (assets); at least one image inside "
    "or beside the pack (pack-banner); distinct = distinct case JSON; evaluations = lookups compared with the model"
)
RULE += " " + 'Added after the seeding rounds: hidden names whose only dot is the leading one (.albumart); sub-directories that are symbolic links to a directory beside the song folder (native); stems containing letters that only a case-insensitive regex equates with i/s/k (dotted capital I, dotless i, long s, Kelvin sign).'
RULE += " " + "Round 6: property values whose path runs through a regular file of the directory ('<file>/img/banner.png')."
RULE += " " + "Round 7: in-memory cases in which the simfile directory is the root of the filesystem itself (path ''), names starting with blanks."
ASSUMPTIONS = [
    "the documented patterns are: banner - stem contains 'banner' or ends with 'bn'; background - contains 'background' or ends with 'bg'; cdtitle - contains 'cdtitle'; jacket - starts with 'jk_' or contains 'jacket' or 'albumart'; cdimage - ends with '-cd'; disc - ends with ' disc' or ' title'; music - extension mp3/oga/ogg/wav; all on the lower-cased name",
    "which of several matching entries is returned is not claimed (membership is checked)",
    "directory components of a specified path are spelled exactly; only the file name is compared case-insensitively",
    "os.listdir / MemoryFS.listdir are stable between two calls on an unchanged directory",
]

IMAGE = [".png", ".jpg", ".jpeg", ".gif", ".bmp"]
AUDIO = [".mp3", ".oga", ".ogg", ".wav"]
IMG_EXT_POOL = IMAGE + [".PNG", ".Jpg", ".JPEG", ".GiF", ".Bmp"]

HIT_STEMS = [
    "banner", "my Banner x", "songbn", "bn", "Song BN",
    "songbg", "background1", "bg", "My Background",
    "cdtitle", "CDTitle-x",
    "jk_song", "jacket", "AlbumArt", "Song Jacket", "JK_x",
    "song-cd", "X-CD",
    "a disc", "a title", "Song Disc", "cd title",
    "banner bg", "jk_song-cd", "jac\u212aet", " banner", " x bg", "  jacket",
]
MISS_STEMS = [
    "bnx", "bann er", "bn ", "abg2", "backgroun", "bg.x", "cdtitl", "cd-title", "xjk_", "jk-song", "jacke t", "album art",
    "song-cdx", "song_cd", "songcd", "disc", "title x", "adisc", "atitle", "plain", "cover", "song",
    # letters that only a case-insensitive *regex* equates with i / s / k (dotted capital I, dotless i, long s, Kelvin
    # sign): lower-casing, which is what "compared case-insensitively" means here, leaves them different ("jac\u212aet"
    # lower-cases to "jacket" and is a hit under both readings; it sits in HIT_STEMS)
    "CDT\u0130TLE", "cdt\u0131tle", "x di\u017fc", "x T\u0130TLE", "\u017fongbn x", "alb\u0131umart",
]
AUDIO_NAMES = ["song.ogg", "song.MP3", "a.wav", "b.oga", "e.OGG", "c.flac", "d.ogg.txt", "ogg", "x.mp3x", "x.wave", "f.Wav"]
OTHER_NAMES = ["notes.txt", "README", "song.lrc", "video.avi"]
# hidden files: the whole name is the stem when the only dot is the leading one
HIDDEN_NAMES = [".albumart", ".cdtitle", ".Song-BG", ".banner", ".bn", ".jk_x", ".x-cd", ".a title", ".hidden", ".Jacket.png", ".bg.JPG", "..bn"]
SUBDIRS = ["sub", "Extras", "extras"]  # two siblings that differ only in letter case (round 8: C20-r8-1, listing cache keyed on the lower-cased directory)
KINDS = [
    ("BANNER", "banner"), ("BACKGROUND", "background"), ("CDTITLE", "cdtitle"), ("JACKET", "jacket"),
    ("CDIMAGE", "cdimage"), ("MUSIC", "music"), ("DISC", "disc"),
]


def need(cond, msg):
    if not cond:
        raise Violation(msg)


def stem_of(name):
    """the name without its extension; leading dots (hidden files) do not start an extension"""
    rest = name.lstrip(".")
    i = rest.rfind(".")
    return (name if i <= 0 else name[: len(name) - len(rest) + i]).lower()


def matches(kind, name):
    """own transcription of the documented patterns"""
    low = name.lower()
    if kind == "MUSIC":
        return any(low.endswith(e) for e in AUDIO)
    s = stem_of(name)
    if kind == "BANNER":
        return "banner" in s or s.endswith("bn")
    if kind == "BACKGROUND":
        return "background" in s or s.endswith("bg")
    if kind == "CDTITLE":
        return "cdtitle" in s
    if kind == "JACKET":
        return s.startswith("jk_") or "jacket" in s or "albumart" in s
    if kind == "CDIMAGE":
        return s.endswith("-cd")
    if kind == "DISC":
        return s.endswith(" disc") or s.endswith(" title")
    raise AssertionError(kind)


def image_rank(name):
    low = name.lower()
    for i, e in enumerate(IMAGE):
        if low.endswith(e):
            return i
    return None


# --------------------------------------------------------------------------------------
# filesystems


class Native:
    flavour = "native"

    def __init__(self):
        self.base = tempfile.mkdtemp(prefix="vf-")
        self.root = self.base
        self.kw = {}
        self.sep = os.sep

    join = staticmethod(os.path.join)
    norm = staticmethod(os.path.normpath)
    split = staticmethod(os.path.split)

    def mkdir(self, p):
        os.makedirs(p, exist_ok=True)

    def write(self, p, data):
        with open(p, "wb") as f:
            f.write(data)

    def listdir(self, p):
        return os.listdir(p)

    def isdir(self, p):
        return os.path.isdir(p)

    def exists(self, p):
        return os.path.exists(p)

    def close(self):
        shutil.rmtree(self.base, ignore_errors=True)


class Mem:
    flavour = "mem"

    def __init__(self):
        import fs.path
        from fs.memoryfs import MemoryFS

        self.fs = MemoryFS()
        self.root = "/root"
        self.fs.makedir("/root")
        self.kw = {"filesystem": self.fs}
        self._p = fs.path
        self.base = None
        self.sep = "/"

    def join(self, *a):
        return self._p.join(*a)

    def norm(self, p):
        return self._p.normpath(p)

    def split(self, p):
        return self._p.split(p)

    def mkdir(self, p):
        self.fs.makedirs(p, recreate=True)

    def write(self, p, data):
        self.fs.writebytes(p, data)

    def listdir(self, p):
        return self.fs.listdir(p)

    def isdir(self, p):
        return self.fs.isdir(p)

    def exists(self, p):
        return self.fs.exists(p)

    def close(self):
        self.fs.close()


FLAVOURS = {"native": Native, "mem": Mem}


# --------------------------------------------------------------------------------------


def _simfile_text(kind, props):
    head = "#VERSION:0.83;\n" if kind == "ssc" else ""
    return head + "#TITLE:t;\n" + "".join(f"#{k}:{v};\n" for k, v in props)


def check_assets(case, E):
    from simfile.assets import Assets
    from simfile.dir import SimfileDirectory
    from simfile.sm import SMSimfile
    from simfile.ssc import SSCSimfile

    d = E.join(E.root, "song")
    if case.get("at_root") is not None and E.flavour == "mem":
        d = case["at_root"]  # the simfile directory is the root of the filesystem itself (an archive opened as a filesystem)
    else:
        E.mkdir(d)
    for name in case["files"]:
        E.write(E.join(d, name), b"x")
    links = case.get("links") or []
    for sub, names in case["subdirs"]:
        if sub in links and E.flavour == "native":
            # the sub-directory is a symbolic link to a directory kept beside the song folder (shared artwork)
            real = E.join(E.root, "_shared_" + sub)
            E.mkdir(real)
            os.symlink(real, E.join(d, sub), target_is_directory=True)
        else:
            E.mkdir(E.join(d, sub))
        for name in names:
            E.write(E.join(d, sub, name), b"x")
    props = [(k, v) for k, v in case["props"] if k not in ("DISC", "DISCIMAGE")]
    route = case["route"]
    sim_name = None
    if route != "given":
        sim_name = "chart." + case["simfile"]
        E.write(E.join(d, sim_name), _simfile_text(case["simfile"], props).encode("utf-8"))
    arg = d + (E.sep if case["trailing_sep"] and d else "")
    if route == "given":
        cls = SSCSimfile if case["simfile"] == "ssc" else SMSimfile
        sf = cls(string="#VERSION:0.83;\n" if case["simfile"] == "ssc" else "")
        sf["TITLE"] = "t"  # never an empty mapping (a falsy simfile makes Assets load from the directory)
        for k, v in props:
            sf[k] = v
        a = Assets(arg, simfile=sf, **E.kw)
    elif route == "load":
        a = Assets(arg, **E.kw)
    else:
        a = SimfileDirectory(arg, **E.kw).assets()

    spec = dict(props)
    listing = E.listdir(d)
    labels = []
    evals = 0
    decided = False
    attrs = dict(KINDS)
    for key in case["order"]:
        attr = attrs[key]
        got = getattr(a, attr)
        evals += 1
        v = spec.get(key)
        S = set()
        if v:
            full = E.join(d, v)
            cd, fn = E.split(full)
            if E.isdir(cd):
                S = {E.norm(E.join(cd, e)) for e in E.listdir(cd) if e.lower() == fn.lower()}
        ctx = f"Assets({arg!r}).{attr} with {key}={v!r}; directory listing {sorted(listing)!r}, sub-directories {case['subdirs']!r}"
        if S:
            need(got in S, f"{ctx}: got {got!r}, expected the named file {sorted(S)!r}")
            decided = True
            exact = E.norm(E.join(d, v)) in S
            labels.append("lookup:specified-hit" if exact else "lookup:specified-hit-other-case")
            if len(S) > 1:
                labels.append("specified-several-spellings")
            if "/" in v:
                labels.append("specified-in-subdir")
                if E.flavour == "native" and v.split("/")[0].lower() in [x.lower() for x in (case.get("links") or [])]:
                    labels.append("specified-in-symlinked-subdir")
        else:
            M = {E.norm(E.join(d, e)) for e in listing if matches(key, e)}
            if M:
                need(got in M, f"{ctx}: got {got!r}, expected one of the pattern matches {sorted(M)!r}")
                labels.append("lookup:pattern-hit" if len(M) == 1 else "lookup:pattern-hit-several")
                if len(listing) > len(M):
                    decided = True
            else:
                need(got is None, f"{ctx}: got {got!r}, expected None (nothing named, nothing matches the pattern)")
                labels.append("lookup:none")
            if v:
                labels.append("specified-missing-or-misplaced")
            elif v == "":
                labels.append("specified-empty")
        if got is not None:
            need(E.exists(got), f"{ctx}: answer {got!r} does not exist")
            need(got == E.norm(got), f"{ctx}: answer {got!r} is not normalized")
        again = getattr(a, attr)
        need(again == got, f"{ctx}: asked again, got {again!r} after {got!r}")
        evals += 1
    labels.append("route:" + route)
    return Verdict(nontrivial=decided, evals=evals, labels=labels)


def check_pack(case, E):
    from simfile.dir import SimfilePack

    parent = E.join(E.root, "Songs")
    name = case["pack"]
    pack = E.join(parent, name)
    E.mkdir(pack)
    for n in case["inside"]:
        E.write(E.join(pack, n), b"x")
    for sd in case["songdirs"]:
        E.mkdir(E.join(pack, sd))
        E.write(E.join(pack, sd, "a.sm"), b"#TITLE:t;\n")
    for n in case["beside"]:
        E.write(E.join(parent, n), b"x")
    arg = pack + (E.sep if case["trailing_sep"] else "")
    rel = bool(case.get("relative")) and E.flavour == "native"
    if rel:
        # the pack named relative to the current directory ("My Pack", "./My Pack/"): answers are compared as absolute paths
        import os

        old_cwd = os.getcwd()
        os.chdir(parent)
        try:
            arg = ("./" if case["relative"] == "dot" else "") + name + (E.sep if case["trailing_sep"] else "")
            sp = SimfilePack(arg, **E.kw)
            got = sp.banner()
            again = sp.banner()
            got = os.path.abspath(got) if got is not None else None
            again = os.path.abspath(again) if again is not None else None
        finally:
            os.chdir(old_cwd)
    else:
        sp = SimfilePack(arg, **E.kw)
        got = sp.banner()
        again = sp.banner()
    listing = E.listdir(pack)
    ranked = [(image_rank(e), e) for e in listing if image_rank(e) is not None and not E.isdir(E.join(pack, e))]
    ctx = f"SimfilePack({arg!r}).banner(); pack listing {sorted(listing)!r}, beside {sorted(E.listdir(parent))!r}"
    labels = []
    if ranked:
        best = min(r for r, _ in ranked)
        ok = {E.norm(E.join(pack, e)) for r, e in ranked if r == best}
        need(got is not None and E.norm(got) in ok, f"{ctx}: got {got!r}, expected an image of the best extension rank {sorted(ok)!r}")
        labels.append("inside:" + ("one" if len(ranked) == 1 else "several-ranks" if len({r for r, _ in ranked}) > 1 else "several-same-rank"))
    else:
        beside = [e for e in IMAGE if E.exists(E.join(parent, name + e))]
        if beside:
            exp = E.norm(E.join(parent, name + beside[0]))
            need(got is not None and E.norm(got) == exp, f"{ctx}: got {got!r}, expected the image beside the pack {exp!r}")
            labels.append("beside:" + ("one" if len(beside) == 1 else "several"))
        else:
            need(got is None, f"{ctx}: got {got!r}, expected None")
            labels.append("none")
    if got is not None:
        need(E.exists(got), f"{ctx}: answer {got!r} does not exist")
    need(again == got, f"{ctx}: asked again, got {again!r} after {got!r}")
    if rel:
        labels.append("relative-pack-path")
    return Verdict(nontrivial=bool(ranked) or labels[0].startswith("beside"), evals=2, labels=labels)


def check(case):
    E = FLAVOURS[case["fs"]]()
    try:
        if case["kind"] == "assets":
            v = check_assets(case, E)
        elif case["kind"] == "pack":
            v = check_pack(case, E)
        else:
            raise Violation(f"unknown case kind {case['kind']}")
        v.labels = tuple(v.labels) + ("fs:" + E.flavour,)
        return v
    except Violation as e:
        raise Violation(str(e).replace(E.base, "<tmp>") if E.base else str(e)) from None
    finally:
        E.close()


# --------------------------------------------------------------------------------------
# generators


def _flip(name, bits):
    out = []
    for i, ch in enumerate(name):
        out.append(ch.upper() if (bits >> (i % 20)) & 1 else ch.lower())
    return "".join(out)


image_name = st.builds(
    lambda hit, h, m, e: (h if hit else m) + e,
    st.sampled_from([True, False, False, False]),
    st.sampled_from(HIT_STEMS),
    st.sampled_from(MISS_STEMS),
    st.sampled_from(IMG_EXT_POOL),
)
entry_name = st.one_of(image_name, image_name, image_name, st.sampled_from(AUDIO_NAMES), st.sampled_from(AUDIO_NAMES + OTHER_NAMES), st.sampled_from(HIDDEN_NAMES))


KIND_HITS = {
    "BANNER": ["banner", "my Banner x", "songbn", "bn", "Song BN", "banner bg"],
    "BACKGROUND": ["songbg", "background1", "bg", "My Background", "banner bg"],
    "CDTITLE": ["cdtitle", "CDTitle-x"],
    "JACKET": ["jk_song", "jacket", "AlbumArt", "Song Jacket", "JK_x", "jk_song-cd"],
    "CDIMAGE": ["song-cd", "X-CD", "jk_song-cd"],
    "DISC": ["a disc", "a title", "Song Disc", "cd title"],
}
AUDIO_HITS = ["song.ogg", "song.MP3", "a.wav", "b.oga", "e.OGG", "f.Wav"]


@st.composite
def _entries(draw, max_extra):
    """directory entries: for each asset kind a planted hit with probability ~1/2, plus near misses / others"""
    out = []
    plant = draw(st.integers(0, 2**14 - 1))
    for i, (key, _) in enumerate(KINDS):
        bits = (plant >> (2 * i)) & 3
        if bits < 2:
            continue
        if key == "MUSIC":
            out.append(draw(st.sampled_from(AUDIO_HITS)))
        else:
            out.append(draw(st.sampled_from(KIND_HITS[key])) + draw(st.sampled_from(IMG_EXT_POOL)))
    out.extend(draw(st.lists(entry_name, max_size=max_extra)))
    if out and draw(st.integers(0, 5)) == 0:
        # a second spelling of an existing entry (distinct on a case-sensitive filesystem)
        out.append(_flip(draw(st.sampled_from(out)), draw(st.integers(0, 2**20 - 1))))
    seen = []
    for n in out:
        if n not in seen:
            seen.append(n)
    return list(draw(st.permutations(seen))) if len(seen) > 1 else seen


@st.composite
def s_assets(draw):
    files = draw(_entries(4))
    subdirs = []
    for sub in SUBDIRS:
        if draw(st.integers(0, 2)) > 0:
            subdirs.append([sub, draw(st.lists(entry_name, max_size=3, unique=True))])
    pool = [(f, None) for f in files] + [(f, sub) for sub, names in subdirs for f in names]
    props = []
    for key, _ in KINDS:
        if key == "DISC":
            continue
        m = draw(st.integers(0, 9))
        if m <= 1:
            continue  # absent
        if m == 2:
            props.append([key, ""])
            continue
        if m in (3, 4, 5, 6) and pool:
            f, sub = draw(st.sampled_from(pool))
            if m >= 5:
                f = _flip(f, draw(st.integers(0, 2**20 - 1)))
            props.append([key, f if sub is None else sub + "/" + f])
        elif m == 7 and pool:
            # near-miss spelling of an existing entry: other extension, or one character more
            f, sub = draw(st.sampled_from(pool))
            i = f.rfind(".")
            near = (f[:i] if i > 0 else f) + draw(st.sampled_from([".png", ".jpg", ".ogg", "x.png", ""]))
            if near == f:
                near = "x" + near
            props.append([key, near if sub is None else sub + "/" + near])
        elif m == 8:
            props.append([key, draw(st.sampled_from(["missing.png", "Missing Banner.png", "nothing.ogg"]))])
        elif m == 9 and files and draw(st.booleans()):
            # a path that runs *through* a regular file of the directory: nothing can exist at that place
            props.append([key, draw(st.sampled_from(files)) + draw(st.sampled_from(["/banner.png", "/img/banner.png", "/a/b/bg.jpg", "/song.ogg"]))])
        else:
            props.append([key, draw(st.sampled_from(["nosuchdir/banner.png", "nosuchdir/bg.jpg", "SUB/song.ogg", "extras/banner.png"]))])
    order = draw(st.permutations([k for k, _ in KINDS]))
    o = draw(st.integers(0, 2**16 - 1))
    return {
        "kind": "assets",
        "fs": ["native", "mem"][o & 1],
        "files": files,
        "subdirs": subdirs,
        "links": [sub for sub, _ in subdirs if draw(st.integers(0, 3)) == 0],
        "at_root": draw(st.sampled_from([None, None, None, None, None, ""])),
        "props": props,
        "simfile": ["sm", "ssc"][(o >> 1) & 1],
        "route": ["given", "given", "load", "dir"][(o >> 2) & 3],
        "trailing_sep": bool((o >> 4) & 1) and bool((o >> 5) & 1),
        "order": list(order),
    }


PACK_NAMES = ["Pack", "My Pack 2", "pack.v2"]


@st.composite
def s_pack(draw):
    name = draw(st.sampled_from(PACK_NAMES))
    n_img = draw(st.sampled_from([0, 0, 0, 1, 1, 2, 3, 4]))
    inside = []
    for _ in range(n_img):
        n = draw(st.sampled_from(["banner", "bn", "x", name, "cover", "zz"])) + draw(st.sampled_from(IMG_EXT_POOL))
        if n not in inside:
            inside.append(n)
    for n in draw(st.lists(st.sampled_from(["notes.txt", "README", "song.ogg", "banner", "png", "x.png.txt", "x.pngx", "group.ini"]), max_size=3, unique=True)):
        inside.append(n)
    inside = list(draw(st.permutations(inside))) if len(inside) > 1 else inside
    beside = []
    for e in draw(st.lists(st.sampled_from(IMAGE), max_size=3, unique=True)):
        beside.append(name + e)
    for n in draw(st.lists(st.sampled_from([name + "x.png", "x" + name + ".png", name + ".txt", "other.png", name + ".png.bak", name + " .png"]), max_size=3, unique=True)):
        beside.append(n)
    o = draw(st.integers(0, 2**16 - 1))
    return {
        "kind": "pack",
        "fs": ["native", "mem"][o & 1],
        "pack": name,
        "inside": inside,
        "songdirs": draw(st.lists(st.sampled_from(["Song A", "songB", "jpg"]), max_size=2, unique=True)),
        "beside": beside,
        "trailing_sep": bool((o >> 1) & 1) and bool((o >> 2) & 1),
        "relative": [None, None, None, "bare", "dot", None, None, "bare"][(o >> 3) & 7],
    }


def parts(tier):
    q = tier == "quick"
    return [
        {"name": "assets", "kind": "hypothesis", "strategy": s_assets, "examples": 6000 if q else 16 * 8000},
        {"name": "pack-banner", "kind": "hypothesis", "strategy": s_pack, "examples": 2000 if q else 16 * 3000},
    ]
