"""
C12 - Time -> beat conversion inverts beat -> time on the tick grid.

Clauses (numbering of DESIGN.md section 5, C12):
 (1) tick-aligned beat not skipped by a warp (outside the warp union, or inside it but carrying a stop):
     beat_at(time_at(b)) == b
 (2) time strictly inside a stop or delay: the paused beat (WARP tag and default)
 (3) any other time: answer g tick-aligned and arrival(g) - h <= T <= departure(g) + h, h = half a tick at the
     slower BPM on either side of g (+1e-9)
 (4) boundary times (the engine's own time_at(b, tag) for a tick-aligned probe beat): default tag = furthest tick beat
     whose arrival time is <= T; WARP tag = first tick beat whose departure time is >= T (exact rational T of the
     same probe taken from the model)
 (5) non-decreasing in T
 (6) redundant BPM changes (same BPM as in force) inserted anywhere change no answer: the timeline with the
     insertions is judged by the same model, and the two engines are compared probe by probe, each asked at its
     own time_at value.
"""
import bisect
from fractions import Fraction as F

from hypothesis import strategies as st

from .. import gen_timing as G
from ..core import Verdict, Violation
from ..model_timing import TAG_NAMES, TICK, Model
from .c11 import build_engine, frac_beat, in_domain, load_corpus_case

ID = "C12"
LEVEL = "exploration"
EPS = F(1, 10**9)
MARGIN = F(1, 10**6)
RULE = (
    "timelines as for C11 (complete placements of up to 4 (quick: 3) events on a 6-point beat grid, Hypothesis "
    "timelines with coinciding anchors, corpus timing data), each also with 1-3 redundant BPM changes inserted. Times "
    "asked: the engine's own time_at(b, tag) for every tick-aligned probe beat (event beats, warp ends, neighbouring "
    "ticks, fixed beats incl. negative) under every EventTag (boundary cases), three times inside every stop and delay, "
    "and generated free times before/between/after the events; each (time, query tag) is one evaluation. Free times "
    "closer than 1e-6 s to a model event time are judged by the tolerant clause (3) and monotonicity only. "
    "Non-trivial = timeline with a stop or delay at the start of / inside / at the end of a warp, or two event kinds on "
    "one beat, or overlapping/touching warps; distinct = distinct timeline"
)
RULE += " " + 'Added after the seeding rounds: the same source kinds, version / number spellings and absent offsets as C11 (vf.gen_timing).'
RULE += " " + 'Round 6: the same tiny pauses and near-equal tempo changes as C11.'
RULE += " " + 'Round 7: as C11 (offsets beyond six decimals, a second engine built in between).'
ASSUMPTIONS = [
    "exact rational model in vf/model_timing.py",
    "boundary times are only ever the engine's own time_at floats; distinct model event times are >= 6e-4 s apart in "
    "this domain (tick at 2000 BPM, pauses >= 0.001 s), so float order equals rational order",
    "a beat inside a warp carrying only a delay is not claimed to round-trip (the repository's tests pin the opposite)",
]


def need(c, msg):
    if not c:
        raise Violation(msg)


class Tables:
    """arrival/departure of every tick-aligned candidate beat, for the exact clause (4)"""

    def __init__(self, m, cands):
        self.c = cands
        self.arr = [m.arrival(b) for b in cands]
        self.dep = [m.departure(b) for b in cands]

    def furthest(self, T):
        i = bisect.bisect_right(self.arr, T) - 1
        return self.c[i] if i >= 0 else None

    def first_leaving(self, T):
        i = bisect.bisect_left(self.dep, T)
        return self.c[i] if i < len(self.c) else None


def run_clauses(tl, free_fracs, what, engine=None):
    from simfile.timing.engine import EventTag

    m = Model(tl)
    eng = engine if engine is not None else build_engine(tl)
    tags = [EventTag[n] for n in TAG_NAMES]
    WARP = EventTag["WARP"]
    cands = [b for b in m.probe_beats() if (b * 48).denominator == 1]
    tab = Tables(m, cands)
    evals = 0
    asked = []  # (float T, g_default, g_warp)
    answers = {}

    def ask(T):
        gd = eng.beat_at(T)
        gw = eng.beat_at(T, WARP)
        asked.append((float(T), F(gd), F(gw)))
        return F(gd), F(gw)

    ctx = f"; {what} timeline {tl}"
    # (4) boundary times, (1) round trip
    for b in cands:
        B = frac_beat(b)
        for rank, tag in enumerate(tags):
            T = eng.time_at(B, tag)
            Tx = m.time(b, rank)
            gd, gw = ask(T)
            answers[(b, rank)] = (gd, gw)
            evals += 2
            ed = tab.furthest(Tx)
            ew = tab.first_leaving(Tx)
            need(
                ed is None or gd == ed,
                f"beat_at(time_at({b}, {tag.name}) = {float(T)!r}) = {gd}, furthest beat reached at that time is {ed}{ctx}",
            )
            need(
                ew is None or gw == ew,
                f"beat_at(time_at({b}, {tag.name}) = {float(T)!r}, WARP) = {gw}, the stretch elapsing at that time starts at {ew}{ctx}",
            )
        if (not m.in_warp(b)) or (b in m.stop_at):
            back = F(eng.beat_at(eng.time_at(B)))
            evals += 1
            need(back == b, f"beat_at(time_at({b})) = {back}, expected the beat itself{ctx}")

    # (2) pause interiors
    pauses = m.pauses()
    for ts, te, p in pauses:
        for q in (F(1, 4), F(1, 2), F(3, 4)):
            T = float(ts + q * (te - ts))
            Tq = F(T)
            if not (ts + MARGIN <= Tq <= te - MARGIN):
                continue
            gd, gw = ask(T)
            evals += 2
            need(gd == p and gw == p, f"beat_at({T!r}) inside the pause on beat {p} = {gd} (default) / {gw} (WARP){ctx}")

    # (3) free times
    last = max(m.event_beats() | {F(0)})
    tlo, thi = m.time(F(-2)), m.time(last + 3, 6)
    ev_times = m.event_times()
    for num in free_fracs:
        T = float(tlo + F(num, 10**6) * (thi - tlo))
        Tq = F(T)
        gd, gw = ask(T)
        evals += 2
        inside = [p for ts, te, p in pauses if ts + MARGIN <= Tq <= te - MARGIN]
        if inside:
            need(gd == inside[0] and gw == inside[0], f"beat_at({T!r}) inside the pause on beat {inside[0]} = {gd} / {gw}{ctx}")
            continue
        for g, name in ((gd, "default"), (gw, "WARP")):
            need((g * 48).denominator == 1, f"beat_at({T!r}, {name}) = {g} is not tick-aligned{ctx}")
            slow = min(m.bpm(g - TICK), m.bpm(g))
            h = (TICK / 2) * 60 / slow
            lo = m.arrival(g) - h - EPS
            hi = m.departure(g) + h + EPS
            need(
                lo <= Tq <= hi,
                f"beat_at({T!r}, {name}) = {g}, but that beat is occupied during [{float(m.arrival(g))!r}, {float(m.departure(g))!r}] "
                f"(half a tick = {float(h):.3e} s){ctx}",
            )
        # away from every event time the two tags must agree and the exact clause applies as well
        i = bisect.bisect_left(ev_times, Tq)
        near = any(abs(ev_times[j] - Tq) < MARGIN for j in (i - 1, i) if 0 <= j < len(ev_times))
        if not near:
            need(gd == gw, f"beat_at({T!r}) differs between default ({gd}) and WARP ({gw}) away from every event time{ctx}")

    # answers must not depend on the order of the queries: ask everything again in reverse order
    for T, d0, w0 in reversed(list(asked)[::4]):
        evals += 1
        need(F(eng.beat_at(T)) == d0 and F(eng.beat_at(T, WARP)) == w0, f"beat_at({T!r}) changes when asked again in a different order{ctx}")

    # (5) monotone
    asked.sort(key=lambda t: t[0])
    for (t0, d0, w0), (t1, d1, w1) in zip(asked, asked[1:]):
        need(d1 >= d0, f"beat_at decreases: {t0!r} -> {d0}, {t1!r} -> {d1}{ctx}")
        need(w1 >= w0, f"beat_at(WARP) decreases: {t0!r} -> {w0}, {t1!r} -> {w1}{ctx}")
    return m, answers, evals


def check(case):
    if case.get("kind") == "corpus":
        tl = load_corpus_case(case)
        if not in_domain(tl):
            return Verdict(excluded="corpus timing data outside the domain")
    else:
        tl = case["tl"]
    free = case.get("times", [])
    m, ans_a, evals = run_clauses(tl, free, "")

    have = {k for k, _ in tl["bpms"]}
    ins = sorted({k for k in case.get("insert", []) if k not in have and k > 0})
    if ins:
        nb = list(tl["bpms"])
        for k in ins:
            nb.append([k, [v for kk, v in tl["bpms"] if kk <= k][-1]])
        nb.sort()
        tl2 = dict(tl)
        tl2["bpms"] = nb
        _m2, ans_b, ev2 = run_clauses(tl2, free, f"(with redundant BPM changes at ticks {ins})")
        evals += ev2
        for key, va in ans_a.items():
            vb = ans_b.get(key)
            if vb is not None:
                evals += 1
                need(
                    va == vb,
                    f"redundant BPM changes at ticks {ins} change the beat found at time_at({key[0]}, {TAG_NAMES[key[1]]}): "
                    f"{va} -> {vb}; timeline {tl}",
                )

    # an engine built from the same TimingData object after equal-length in-place edits must answer for the edited data
    from simfile.ssc import SSCSimfile
    from simfile.timing import TimingData
    from simfile.timing.engine import TimingEngine
    from ..model_timing import simfile_text
    from .c11 import edit_in_place

    from ..model_timing import timing_data

    td = timing_data(tl)
    TimingEngine(td).beat_at(1.0)
    tl_b = edit_in_place(tl, td, "replace")
    _m3, _a3, ev3 = run_clauses(tl_b, free[:6], f"(engine built from a TimingData object edited in place, originally {tl})", engine=TimingEngine(td))
    evals += ev3

    labs = set(m.coincidences())
    strong = {l for l in labs if l.startswith(("stop-", "delay-", "same-beat", "warps-"))}
    return Verdict(nontrivial=bool(strong), labels=sorted(labs) + (["redundant-bpm"] if ins else []) + ["source:" + (tl.get("source") or "ssc")], evals=evals, key=tl)


@st.composite
def s_case(draw):
    tl = draw(G.timelines())
    hi = max([k for n in ("bpms", "stops", "delays") for k, _ in tl[n]] + [k + l for k, l in tl["warps"]]) + 48
    insert = draw(st.lists(st.integers(1, hi), min_size=1, max_size=3, unique=True))
    evb = [k for n in ("stops", "delays", "warps") for k, _ in tl[n] if k > 0]
    if evb and draw(st.booleans()):
        insert += draw(st.lists(st.sampled_from(evb), max_size=2, unique=True))
    times = draw(st.lists(st.integers(0, 10**6), max_size=25))
    return {"tl": tl, "insert": sorted(set(insert)), "times": times}


def _place_iter(max_events):
    def it(shard, nshards):
        for i, tl in enumerate(G.placements_iter(max_events, shard, nshards)):
            # alternate the number and position of inserted redundant changes (parity matters for the known defect)
            ins = [[12], [12, 60], [12, 60, 84], [36]][i % 4]
            yield {"tl": tl, "insert": ins, "times": [0, 100000, 250000, 333333, 500000, 654321, 800000, 999999]}

    return it


def corpus_cases():
    import simfile

    out = []
    for path in G.corpus_timelines():
        sf = simfile.open(G.corpus_path(path))
        out.append({"kind": "corpus", "path": path, "chart": None, "insert": [24, 480], "times": [0, 5000, 999999]})
        for i in range(len(sf.charts)):
            out.append({"kind": "corpus", "path": path, "chart": i, "insert": [100], "times": [1234, 777777]})
    return out


def parts(tier):
    q = tier == "quick"
    return [
        {"name": "corpus", "kind": "fixed", "cases": corpus_cases},
        {"name": "placements", "kind": "enum", "iter": _place_iter(3 if q else 4), "exhaustive": True},
        {"name": "random", "kind": "hypothesis", "strategy": s_case, "examples": 1500 if q else 16 * 6000},
    ]
