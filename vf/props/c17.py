"""
C17 - SSC -> SM conversion applies the caller's policy to every SSC-only property.

Oracle: a table-driven model transcribed from the documentation (not from convert.py's tables, which are not
imported):

* which properties are SSC-only and of which kind: the known-property lists in the docstrings of SSCSimfile and
  SSCChart ("SSC version: version / Metadata: ... / File paths: ... / Gameplay events: ... / Timing data: ...") and
  the table in docs/source/known-properties.rst (columns SMSimfile / SSCSimfile, SMChart / SSCChart);
* what a behaviour does: the member docstrings of InvalidPropertyBehavior; the default mapping: the docstring of
  ssc_to_sm (gameplay events and timing data are refused unless default, everything else is left out) and the
  property text;
* "the field's default": the empty string, or the non-empty value the blank SSC simfile gives the field.

PropertyType's docstring says the kinds only "roughly mirror" the documented lists.  Where the documentation is
explicit and a second reading is plausible, the model *forks* and accepts either outcome (never a third); which
reading the code follows is counted in the evidence labels ("reading:...").  The forks are:
  simfile TIMESIGNATURES   documented for SMSimfile too (so: copied) | treated as SSC-only metadata
  chart LABELS, DISPLAYBPM documented under "Timing data" of SSCChart | treated as metadata
  default of VERSION, chart OFFSET, chart BPMS   the blank SSC value ("0.83", "0.000000", "0.000=60.000") | ""
  non-empty chart-level WARPS   per the timing-data behaviour | NotImplementedError ("when warps are present")
"""
import os

from hypothesis import strategies as st

from .. import core
from .. import gen_convert as G
from ..core import Verdict, Violation

ID = "C17"
LEVEL = "exploration"
RULE = (
    "Hypothesis draws a plain-data SSC source (blank or empty base; each of the 15 SSC-only simfile properties and "
    "TIMESIGNATURES in a state absent/untouched/empty/default/padded default/non-default, WARPS absent/empty/"
    "well-formed non-empty; other keys incl. None values and adversarial keys; 0-3 charts whose keys are the six "
    "fields (any subset, any order) plus documented SSC chart properties in the same states), a behaviour mapping "
    "(default, lenient, uniformly random, partial) and optional SM simfile/chart templates; cases are biased so that "
    "more than a third return a simfile. Second part: SM sources without SSC-only keys -> sm_to_ssc -> ssc_to_sm "
    "under a non-refusing mapping. Enumerated part: every one of the 5^5 total/partial mappings over fixed family "
    "members (two in the quick tier). Corpus SSC files under several mappings. Chart keys under COPY_ANYWAY, MUSIC, "
    "NOTES2 and unknown chart keys are never generated (known findings, probed). non-trivial = the source carries an "
    "SSC-only property in a non-absent state and (a non-default mapping or a template or a chart); distinct = "
    "distinct canonical JSON (enumerated part: distinct (member, mapping))"
)
RULE += " " + "Added after the seeding rounds: state 'near-default' - a value that differs from a non-empty default only by an inner blank, one character more or less, or letter case (refused under ERROR_UNLESS_DEFAULT)."
RULE += " " + "Round 7: near-default values also with a stray list separator (default + ',', ',' + default, ',' alone for empty defaults)."
ASSUMPTIONS = [
    "the tables of SSC-only properties and their kinds are transcribed from the docstrings of SSCSimfile/SSCChart and docs/source/known-properties.rst",
    "SMSimfile.blank() / SMChart.blank() are the documented default templates and are read through the public API",
    "where documentation and a plausible second reading differ (see module docstring) either outcome is accepted",
    "sm_to_ssc is trusted for the round-trip clause only as far as C16 checks it",
]

SIX = G.SIX
TYPES = ("SSC_VERSION", "METADATA", "FILE_PATH", "GAMEPLAY_EVENT", "TIMING_DATA")
BEHS = ("COPY_ANYWAY", "IGNORE", "ERROR_UNLESS_DEFAULT", "ERROR")
DEFAULT_BEH = {
    "SSC_VERSION": "IGNORE",
    "METADATA": "IGNORE",
    "FILE_PATH": "IGNORE",
    "GAMEPLAY_EVENT": "ERROR_UNLESS_DEFAULT",
    "TIMING_DATA": "ERROR_UNLESS_DEFAULT",
}

# kind candidates, documentation reading first; None = "the SM format can hold it"
SIM_TABLE = {
    "VERSION": ("SSC_VERSION",),
    "ORIGIN": ("METADATA",), "LABELS": ("METADATA",), "MUSICLENGTH": ("METADATA",), "LASTSECONDHINT": ("METADATA",),
    "PREVIEWVID": ("FILE_PATH",), "JACKET": ("FILE_PATH",), "CDIMAGE": ("FILE_PATH",), "DISCIMAGE": ("FILE_PATH",),
    "PREVIEW": ("FILE_PATH",),
    "COMBOS": ("GAMEPLAY_EVENT",), "SPEEDS": ("GAMEPLAY_EVENT",), "SCROLLS": ("GAMEPLAY_EVENT",), "FAKES": ("GAMEPLAY_EVENT",),
    "WARPS": ("TIMING_DATA",),
    "TIMESIGNATURES": (None, "METADATA"),
}
CHART_TABLE = {
    "CHARTNAME": ("METADATA",), "CHARTSTYLE": ("METADATA",), "CREDIT": ("METADATA",), "TIMESIGNATURES": ("METADATA",),
    "MUSIC": ("FILE_PATH",),
    "TICKCOUNTS": ("GAMEPLAY_EVENT",), "COMBOS": ("GAMEPLAY_EVENT",), "SPEEDS": ("GAMEPLAY_EVENT",),
    "SCROLLS": ("GAMEPLAY_EVENT",), "FAKES": ("GAMEPLAY_EVENT",), "ATTACKS": ("GAMEPLAY_EVENT",),
    "BPMS": ("TIMING_DATA",), "STOPS": ("TIMING_DATA",), "DELAYS": ("TIMING_DATA",), "WARPS": ("TIMING_DATA",),
    "OFFSET": ("TIMING_DATA",),
    "LABELS": ("TIMING_DATA", "METADATA"), "DISPLAYBPM": ("TIMING_DATA", "METADATA"),
}
DEFAULTS = {
    "TIMESIGNATURES": "0.000=4=4",
    "TICKCOUNTS": "0.000=4",
    "COMBOS": "0.000=1",
    "SPEEDS": "0.000=1.000=0.000=0",
    "SCROLLS": "0.000=1.000",
    "LABELS": "0.000=Song Start",
}
# blank-SSC values of fields for which the code keeps the empty string as default: both accepted
ALT_DEFAULTS = {("simfile", "VERSION"): "0.83", ("chart", "OFFSET"): "0.000000", ("chart", "BPMS"): "0.000=60.000"}


def need(cond, msg):
    if not cond:
        raise Violation(msg() if callable(msg) else msg)


def _short(x, n=400):
    s = repr(x)
    return s if len(s) <= n else s[:n] + "..."


def decisions(level, key, value, beh):
    """-> list of (decision, reading tag) with distinct decisions, documentation reading first.
    decision: 'copy' | 'skip' | 'raise' | 'nie' | 'cannot-hold'"""
    table = SIM_TABLE if level == "simfile" else CHART_TABLE
    kinds = table.get(key)
    out = []

    def add(d, tag):
        if all(d != d0 for d0, _ in out):
            out.append((d, tag))

    if kinds is None:
        if level == "chart" and key not in SIX:
            # known finding: a chart key the SM chart cannot hold and the documentation does not list
            add("cannot-hold", None)
        else:
            add("copy", None)
        return out
    for kind in kinds:
        tag = f"{key}({level})={'SM-holdable' if kind is None else kind}" if len(kinds) > 1 else None
        if kind is None:
            add("copy", tag)
            continue
        b = beh.get(kind) or DEFAULT_BEH[kind]
        if b == "COPY_ANYWAY":
            add("copy" if level == "simfile" else "cannot-hold", tag)
        elif b == "IGNORE":
            add("skip", tag)
        elif b == "ERROR":
            add("raise", tag)
        else:
            cands = [(DEFAULTS.get(key, ""), None)]
            alt = ALT_DEFAULTS.get((level, key))
            if alt is not None:
                cands = [(alt, f"default of {key}({level})={alt!r}"), ("", f"default of {key}({level})=''")]
            for dflt, dtag in cands:
                if value is None:
                    # a key-only SSC-only property ('#FAKES;') has no value to trim: read as the empty value (left out when
                    # the default is empty) or refused - either reading, but never another kind of failure
                    add("skip" if dflt == "" else "raise", dtag or tag)
                    add("raise", f"key-only {key}({level}) refused")
                else:
                    add("skip" if value.strip() == dflt else "raise", dtag or tag)
    if level == "chart" and key == "WARPS" and value is not None and value.strip():
        add("nie", "chart WARPS -> NotImplementedError")
    return out


def model(src_pairs, src_charts, beh, base_pairs, base_charts, cbase_fields):
    """-> list of acceptable outcomes, documentation reading first:
    ('nie', tags) | ('invalid', key, tags) | ('ok', props dict, charts [[six]...], tags)"""
    w = dict(src_pairs).get("WARPS")
    if w is not None and w.strip():
        return [("nie", ())]
    outcomes = []
    frontier = [(dict(base_pairs), [list(f) for f in base_charts], ())]

    def step(level, k, v, apply_copy):
        nonlocal frontier
        new = []
        ds = decisions(level, k, v, beh)
        for props, charts, tags in frontier:
            for d, tag in ds:
                t2 = tags + ((tag,) if tag and len(ds) > 1 else ())
                if d == "raise":
                    outcomes.append(("invalid", k, t2))
                elif d == "nie":
                    outcomes.append(("nie", t2))
                elif d == "cannot-hold":
                    # outside the domain (known finding): a graceful implementation either leaves it out or refuses it
                    outcomes.append(("invalid", k, t2))
                    new.append((props, charts, t2))
                elif d == "copy":
                    new.append(apply_copy(props, charts, k, v) + (t2,))
                else:
                    new.append((props, charts, t2))
        frontier = new

    def copy_prop(props, charts, k, v):
        p2 = dict(props)
        p2[k] = v
        return (p2, charts)

    for k, v in src_pairs:
        step("simfile", k, v, copy_prop)
    for items in src_charts:
        frontier = [(p, c + [list(cbase_fields)], t) for p, c, t in frontier]

        def copy_field(props, charts, k, v):
            c2 = [list(f) for f in charts]
            c2[-1][SIX.index(k)] = v
            return (props, c2)

        for k, v in items:
            step("chart", k, v, copy_field)
    for props, charts, tags in frontier:
        outcomes.append(("ok", props, charts, tags))
    return outcomes


def _beh_arg(beh):
    from simfile.convert import InvalidPropertyBehavior, PropertyType

    return {PropertyType[t]: InvalidPropertyBehavior[b] for t, b in beh.items()}


def _snap_ctmpl(c):
    return ([c[k] for k in SIX], list(c.extradata) if c.extradata else [])


def _as_subclass(stmpl, ctmpl):
    from simfile.sm import SMChart, SMSimfile

    class MySMChart(SMChart):
        pass

    class MySMSimfile(SMSimfile):
        pass

    def chart(c):
        n = MySMChart.from_msd([c[k] for k in SIX] + list(c.extradata or []))
        return n

    s2 = None
    if stmpl is not None:
        s2 = MySMSimfile(string="")
        for k, v in stmpl.items():
            s2[k] = v
        s2.charts = [chart(c) for c in stmpl.charts]
    return s2, (chart(ctmpl) if ctmpl is not None else None)


def convert_and_judge(ssc, beh, stmpl, ctmpl, labels):
    """the oracle for one call of ssc_to_sm; appends labels; returns the outcome kind"""
    from simfile.convert import InvalidPropertyException, ssc_to_sm
    from simfile.sm import SMChart, SMSimfile

    src_snap = G.snap_ssc(ssc)
    st_snap = G.snap_sm(stmpl) if stmpl is not None else None
    ct_snap = _snap_ctmpl(ctmpl) if ctmpl is not None else None
    src_pairs, src_charts = src_snap

    def unmodified(when):
        need(G.snap_ssc(ssc) == src_snap, lambda: f"source modified {when}: now {_short(G.snap_ssc(ssc))}, before {_short(src_snap)}")
        if stmpl is not None:
            need(G.snap_sm(stmpl) == st_snap, lambda: f"simfile template modified {when}: now {_short(G.snap_sm(stmpl))}, before {_short(st_snap)}")
        if ctmpl is not None:
            need(_snap_ctmpl(ctmpl) == ct_snap, lambda: f"chart template modified {when}: now {_short(_snap_ctmpl(ctmpl))}, before {_short(ct_snap)}")

    if stmpl is not None:
        base_pairs = st_snap[0]
        base_charts = [f for f, _ in st_snap[1]]
    else:
        base_pairs = [(k, v) for k, v in SMSimfile.blank().items()]
        base_charts = []
    cbase = ct_snap[0] if ctmpl is not None else [SMChart.blank()[k] for k in SIX]
    outcomes = model(src_pairs, src_charts, beh, base_pairs, base_charts, cbase)

    def describe(o):
        if o[0] == "ok":
            return f"an SMSimfile with properties {_short(o[1])} and charts {_short(o[2])}"
        if o[0] == "invalid":
            return f"InvalidPropertyException naming {o[1]!r}"
        return "NotImplementedError"

    def expected():
        s = describe(outcomes[0])
        if len(outcomes) > 1:
            s += f" (or one of {len(outcomes) - 1} outcome(s) under the alternative readings)"
        return s

    ctx = lambda: f"source {_short(src_snap)} behaviours {beh!r} templates {_short((st_snap, ct_snap))}"  # noqa: E731

    try:
        result = ssc_to_sm(ssc, invalid_property_behaviors=_beh_arg(beh), simfile_template=stmpl, chart_template=ctmpl)
    except NotImplementedError:
        match = [o for o in outcomes if o[0] == "nie"]
        need(match, lambda: f"NotImplementedError, expected {expected()}; {ctx()}")
        unmodified("by a refused conversion")
        got_kind = "nie"
    except InvalidPropertyException as e:
        msg = str(e)
        inv = [o for o in outcomes if o[0] == "invalid"]
        need(inv, lambda: f"InvalidPropertyException({msg!r}), expected {expected()}; {ctx()}")
        match = [o for o in inv if o[1] in msg]
        need(match, lambda: f"InvalidPropertyException({msg!r}) does not name the first offending property; expected {expected()}; {ctx()}")
        unmodified("by a refused conversion")
        got_kind = "invalid"
    else:
        need(isinstance(result, SMSimfile), lambda: f"result is {type(result).__name__}, not an SMSimfile")
        got_props = dict(result.items())
        got_charts = [[c[k] for k in SIX] for c in result.charts]
        oks = [o for o in outcomes if o[0] == "ok"]
        need(oks, lambda: f"returned a simfile, expected {expected()}; {ctx()}")
        match = [o for o in oks if o[1] == got_props and o[2] == got_charts]
        need(match, lambda: f"returned properties {_short(got_props)} charts {_short(got_charts)}, expected {expected()}; {ctx()}")
        for c in result.charts:
            need(isinstance(c, SMChart), lambda: f"result chart is {type(c).__name__}")
        # templates respected: extra NOTES components come from the simfile template's own charts / the chart template
        got_extra = [list(c.extradata) if c.extradata else [] for c in result.charts]
        exp_extra = ([e for _, e in st_snap[1]] if stmpl is not None else []) + [list(ct_snap[1]) if ctmpl is not None else []] * len(src_charts)
        need(got_extra == exp_extra, lambda: f"extra chart components of the result {got_extra!r}, expected {exp_extra!r} (from the templates); {ctx()}")
        unmodified("by the conversion")
        foreign = []
        if stmpl is not None:
            need(result is not stmpl and result.charts is not stmpl.charts, "the result (or its chart list) is the template's")
            foreign += [("simfile template chart", c) for c in stmpl.charts]
        if ctmpl is not None:
            foreign.append(("chart template", ctmpl))
        rcharts = list(result.charts)
        for i, rc in enumerate(rcharts):
            for what, c in foreign:
                need(rc is not c, lambda: f"chart {i} of the result is the {what} object itself")
            for i2 in range(i):
                need(rc is not rcharts[i2], lambda: f"charts {i2} and {i} of the result are one object")
        result["VF-EDIT"] = "x"
        for rc in rcharts:
            rc["DESCRIPTION"] = "vf-edited"
            if rc.extradata:
                rc.extradata.append("vf")
        result.charts.append(SMChart.blank())
        unmodified("by editing the result (shared mutable object)")
        got_kind = "ok"

    labels.append("outcome:" + got_kind)
    # which reading did the code follow where the readings lead to different outcomes?
    if len({o[:-1] if o[0] != "ok" else (o[0], G_key(o[1]), G_key2(o[2])) for o in outcomes}) > 1:
        tags = set(match[0][-1])
        for o in match[1:]:
            tags &= set(o[-1])
        for t in sorted(tags):
            labels.append("reading:" + t)
    return got_kind


def G_key(d):
    return tuple(sorted((k, "\0none" if v is None else v) for k, v in d.items()))


def G_key2(charts):
    return tuple(tuple("\0none" if v is None else v for v in f) for f in charts)


def _state_labels(src_pairs, src_charts, beh, labels):
    present = [k for k, _ in src_pairs if k in SIM_TABLE]
    cpresent = [k for items in src_charts for k, _ in items if k in CHART_TABLE]
    if any(v is not None and v != v.strip() and v.strip() for k, v in src_pairs if k in SIM_TABLE):
        labels.append("padded-value")
    if any(v is not None and v != v.strip() and v.strip() for items in src_charts for k, v in items if k in CHART_TABLE):
        labels.append("padded-chart-value")
    labels.append("mapping:" + ("default" if not beh else ("total" if len(beh) == 5 else "partial")))
    return bool(present or cpresent)


def check(case):
    import simfile
    from simfile.convert import sm_to_ssc

    kind = case["kind"]
    labels = ["kind:" + kind]

    if kind in ("ssc2sm", "corpus"):
        if kind == "corpus":
            ssc = simfile.open(os.path.join(core.REPO_ROOT, "testdata", case["file"]))
        else:
            ssc = G.build_ssc(case["src"])
        stmpl = G.build_sm(case["stmpl"]) if case.get("stmpl") is not None else None
        ctmpl = G.build_sm_chart(case["ctmpl"]) if case.get("ctmpl") is not None else None
        if case.get("subclass"):
            # templates may be instances of a caller's own subclass of the SM classes
            stmpl, ctmpl = _as_subclass(stmpl, ctmpl)
            labels.append("subclass-templates")
        beh = case["beh"]
        pairs, charts = G.snap_ssc(ssc)
        for w in [dict(pairs).get("WARPS")] + [dict(items).get("WARPS") for items in charts]:
            if w is not None and w and not w.strip():
                return Verdict(excluded="blank-only WARPS value: not claimed either way")
        has_ssc_only = _state_labels(pairs, charts, beh, labels)
        labels.append("charts:%d" % len(charts))
        if any(v is None for _, v in pairs) or any(v is None for items in charts for _, v in items):
            labels.append("none-value")
        labels.append("stmpl:" + ("none" if stmpl is None else ("no-props" if len(stmpl) == 0 else "props")))
        labels.append("ctmpl:" + ("none" if ctmpl is None else "given"))
        if case.get("avoided"):
            labels.append("kf-avoided:copy-anyway-on-chart-key")
        convert_and_judge(ssc, beh, stmpl, ctmpl, labels)
        nontrivial = has_ssc_only and (bool(beh) or stmpl is not None or ctmpl is not None or len(charts) > 0)
        return Verdict(nontrivial=nontrivial, labels=labels, evals=1)

    if kind == "family":
        spec = FAMILY[case["member"]]
        n = 0
        kinds = {}
        for idx in range(case["lo"], case["hi"]):
            beh = _decode_mapping(idx, spec["radix"])
            ssc = G.build_ssc(spec["src"])
            stmpl = G.build_sm(spec["stmpl"]) if spec.get("stmpl") is not None else None
            ctmpl = G.build_sm_chart(spec["ctmpl"]) if spec.get("ctmpl") is not None else None
            sub = []
            try:
                k = convert_and_judge(ssc, beh, stmpl, ctmpl, sub)
            except Violation as e:
                raise Violation(f"family member {case['member']} mapping #{idx} {beh!r}: {e}")
            kinds[k] = kinds.get(k, 0) + 1
            for lab in sub:
                if lab.startswith("reading:") and lab not in labels:
                    labels.append(lab)
            n += 1
        labels += ["family-outcome:" + k for k in sorted(kinds)]
        return Verdict(nontrivial=n > 0, labels=labels, evals=n, weight=n)

    if kind == "roundtrip":
        from simfile.convert import ssc_to_sm

        sm = G.build_sm(case["src"])
        snap = G.snap_sm(sm)
        beh = case["beh"]
        mid = sm_to_ssc(sm)
        mid_snap = G.snap_ssc(mid)
        back = ssc_to_sm(mid, invalid_property_behaviors=_beh_arg(beh))
        got = dict(back.items())
        for k, v in snap[0]:
            need(k in got and got[k] == v and type(got[k]) is type(v), lambda: f"round trip: original property {k!r}={v!r} came back as {got.get(k, '<missing>')!r}; source {_short(snap)} behaviours {beh!r}")
        bc = [[c[k] for k in SIX] for c in back.charts]
        oc = [f for f, _ in snap[1]]
        need(bc == oc, lambda: f"round trip: charts {_short(bc)} differ from the original's {_short(oc)}")
        need(G.snap_sm(sm) == snap, "round trip modified the SM source")
        need(G.snap_ssc(mid) == mid_snap, "ssc_to_sm modified its SSC source")
        # the general oracle applies to the intermediate SSC as well
        convert_and_judge(mid, beh, None, None, labels)
        labels.append("charts:%d" % len(snap[1]))
        labels.append("mapping:" + ("default" if not beh else "lenient"))
        if any(v is None for _, v in snap[0]):
            labels.append("none-value")
        return Verdict(nontrivial=len(snap[0]) > 0, labels=labels, evals=2)

    raise Violation(f"unknown case kind {kind}")


# --------------------------------------------------------------------------------------
# generators

SIM_KEYS = [k for k in SIM_TABLE]  # 15 SSC-only + TIMESIGNATURES
CHART_KEYS = [k for k in CHART_TABLE if k != "MUSIC"]
NONDEFAULT = {
    "VERSION": "0.7", "ORIGIN": "somewhere", "MUSICLENGTH": "123.456", "LASTSECONDHINT": "90", "PREVIEWVID": "pv.avi",
    "JACKET": "jk.png", "CDIMAGE": "cd.png", "DISCIMAGE": "disc.png", "PREVIEW": "prev.ogg", "CHARTNAME": "name",
    "CHARTSTYLE": "Pad", "CREDIT": "me", "OFFSET": "-0.009", "BPMS": "0.000=150.000", "DISPLAYBPM": "120:240",
    "ATTACKS": "TIME=1.0:LEN=2.0:MODS=drunk", "LABELS": "0.000=intro", "TIMESIGNATURES": "0.000=3=4", "COMBOS": "0.000=2",
    "SPEEDS": "0.000=2.000=0.000=0", "SCROLLS": "0.000=0.500", "TICKCOUNTS": "0.000=8",
}
PADS = [(" ", ""), ("", "\n"), ("\t", " \r\n"), ("\n", "\n"), ("  ", "  "), (" ", ""), ("", "\n"), ("\x0c", ""), ("", "\u3000"), ("\xa0", "\x0b")]
SM_FREE_KEYS = [
    "TITLE", "SUBTITLE", "ARTIST", "GENRE", "CREDIT", "BANNER", "BACKGROUND", "CDTITLE", "MUSIC", "SAMPLESTART",
    "SELECTABLE", "BGCHANGES", "FGCHANGES", "KEYSOUNDS", "TICKCOUNTS", "INSTRUMENTTRACK", "LYRICSPATH", "ANIMATIONS",
    "FREEZES", "OFFSET", "BPMS", "STOPS", "DELAYS", "DISPLAYBPM", "ATTACKS",
]


def _value_for(level, key, state, pad):
    if state == "keyonly":
        return None
    dflt = DEFAULTS.get(key, "")
    alt = ALT_DEFAULTS.get((level, key))
    if state == "empty":
        return ""
    if state == "default":
        return dflt
    if state == "alt-default":
        return alt if alt is not None else dflt
    if state == "padded":
        base = dflt if dflt else ""
        return pad[0] + base + pad[1]
    if state == "padded-nondefault":
        return pad[0] + NONDEFAULT.get(key, "9.000=9") + pad[1]
    if state == "near-default" and not dflt:
        # for a field whose default is empty: list punctuation without any entry is still a value
        i = PADS.index(pad) % 3 if pad in PADS else 0
        return [",", ", ", ",\n"][i]
    if state == "near-default" and dflt:
        # differs from the default only slightly: blanks inside it, one character more or less, other letter case, a
        # stray list separator before or after it
        i = PADS.index(pad) % 8 if pad in PADS else 0
        eq = dflt.find("=")
        cut = eq if eq > 0 else 1
        v = [dflt[:cut] + " " + dflt[cut:], dflt[: cut + 1] + " " + dflt[cut + 1 :], dflt + "0", dflt[:-1], dflt.swapcase(),
             dflt + ",", dflt + ",\n", "," + dflt][i]
        if v.strip() != dflt:
            return v
        return dflt + "0"
    return NONDEFAULT.get(key, "9.000=9")


def _passing_states(level, key, beh):
    """states (never 'absent') under which every reading of the key lets the conversion go on"""
    ok = None
    for st_ in ("empty", "default", "alt-default", "padded", "nondefault"):
        v = _value_for(level, key, st_, (" ", "\n"))
        if key == "WARPS" and v.strip() == "" and v != "":
            continue
        ds = decisions(level, key, v, beh)
        if all(d in ("copy", "skip") for d, _ in ds):
            ok = (ok or []) + [st_]
    return ok or []


@st.composite
def _mapping(draw, style):
    beh = {}
    if style == "default":
        return beh
    for t in TYPES:
        if style == "lenient":
            b = draw(st.sampled_from([None, "IGNORE", "IGNORE", "ERROR_UNLESS_DEFAULT", "COPY_ANYWAY"]))
        elif style == "partial":
            b = draw(st.sampled_from([None, None, None] + list(BEHS)))
        else:
            b = draw(st.sampled_from(list(BEHS) + [None]))
        if b is not None:
            beh[t] = b
    return beh


def _free_pairs():
    k = st.one_of(st.sampled_from(SM_FREE_KEYS), st.sampled_from(SM_FREE_KEYS), G.odd_key())
    return st.lists(st.tuples(k, G.value()), max_size=4).map(
        lambda l: [[a, ("" if b is None and a in G.MULTI else b)] for a, b in l if a not in ("NOTES", "NOTEDATA") and a not in SIM_TABLE]
    )


STATES = ["absent", "absent", "keep", "keep", "empty", "default", "default", "alt-default", "padded", "padded", "nondefault", "padded-nondefault", "keyonly", "near-default"]


@st.composite
def s_ssc2sm(draw):
    style = draw(st.sampled_from(["default", "lenient", "lenient", "random", "random", "partial"]))
    beh = draw(_mapping(style))
    # steer: "ok" = every property gets a state that lets the conversion go on; "few" = the same, but each property
    # keeps its freely drawn state with probability 1/5 (few offenders, often deep in the walk); "free" = as drawn
    aim = draw(st.sampled_from(["ok", "few", "free", "ok", "few"]))
    pad = draw(st.sampled_from(PADS))
    base = draw(st.sampled_from(["blank", "blank", "empty"]))
    avoided = 0
    coin = st.sampled_from([False] * 4 + [True])

    def pick_state(level, key, drawn, free):
        if aim == "free" or (aim == "few" and free):
            return drawn
        if drawn == "absent":
            return drawn
        if drawn == "keep":
            drawn = "default"
        okst = _passing_states(level, key, beh)
        if drawn not in okst:
            return okst[sum(map(ord, key)) % len(okst)] if okst else "absent"
        return drawn

    # ---- simfile-level SSC-only properties
    states = draw(st.lists(st.tuples(st.sampled_from(STATES), coin), min_size=len(SIM_KEYS), max_size=len(SIM_KEYS)))
    wsel = draw(st.sampled_from(["absent"] * 6 + ["keep"] * 6 + ["empty"] * 6 + ["nondefault", "padded-nondefault"]))
    dels, props = [], []
    for key, (drawn, free) in zip(SIM_KEYS, states):
        if key == "WARPS":
            drawn = wsel
            if drawn in ("nondefault", "padded-nondefault"):
                props.append([key, _value_for("simfile", key, drawn, pad).replace("9.000=9", draw(st.sampled_from(["4.000=1.000", "4.000=1.000", "16.000=0.000", "4.000=0.000,8.000=0.000", "4.000=0.000,8.000=2.000"])))])
                continue
        s = pick_state("simfile", key, drawn, free)
        if key == "WARPS" and s in ("padded", "default", "alt-default"):
            s = "empty"
        if s == "absent":
            dels.append(key)
        elif s == "keep":
            pass
        else:
            props.append([key, _value_for("simfile", key, s, pad)])
    free = draw(_free_pairs())
    allp = props + free
    order = draw(st.permutations(list(range(len(allp))))) if allp else []
    props = [allp[i] for i in order]
    seen = set()
    props = [p for p in props if not (p[0] in seen or seen.add(p[0]))]

    # ---- charts
    charts = []
    for _ in range(draw(st.sampled_from([0, 1, 1, 1, 2, 2, 3]))):
        cbase = draw(st.sampled_from(["blank", "empty", "empty"]))
        cdels, items = [], []
        fields = draw(st.lists(st.sampled_from(SIX[:5]), max_size=5, unique=True))
        for f in fields:
            items.append([f, draw(G.value(allow_none=False))])
        if cbase == "empty" or draw(st.booleans()):
            items.append(["NOTES", draw(G.notedata())])
        ckeys = draw(st.lists(st.sampled_from(CHART_KEYS), max_size=6, unique=True))
        if cbase == "blank":
            ckeys = list(dict.fromkeys(ckeys + ["CHARTNAME", "CHARTSTYLE", "CREDIT"]))
        cstates = draw(st.lists(st.tuples(st.sampled_from(STATES), coin), min_size=len(ckeys), max_size=len(ckeys)))
        for key, (drawn, free) in zip(ckeys, cstates):
            if any(d == "cannot-hold" for d, _ in decisions("chart", key, "", beh) + decisions("chart", key, "x", beh)):
                # known finding (COPY_ANYWAY on a chart key): kept out by construction
                avoided += 1
                cdels.append(key)
                continue
            s = pick_state("chart", key, drawn, free)
            if key == "WARPS" and s in ("padded", "default", "alt-default"):
                s = "empty"  # a blank-only WARPS value is not claimed either way
            if s == "absent":
                cdels.append(key)
            elif s == "keep":
                pass
            else:
                items.append([key, _value_for("chart", key, s, pad)])
        corder = draw(st.permutations(list(range(len(items))))) if items else []
        items = [items[i] for i in corder]
        if cbase == "blank" and any(p[0] == "NOTES" for p in items) and draw(st.booleans()):
            cdels.append("NOTES")  # so that the re-assigned NOTES lands where the permutation put it
        charts.append({"base": cbase, "del": cdels, "items": items})

    # ---- templates
    stmpl = None
    tsel = draw(st.sampled_from([9, 9, 9, 9, 2, 3, 4, 0, 1, 9]))
    if tsel == 0:
        stmpl = {"base": "empty", "del": [], "props": [], "charts": []}
    elif tsel == 1:
        stmpl = {"base": "empty", "del": [], "props": [], "charts": [{"fields": ["t", "d", "Hard", "9", "r", "1111"], "extra": None}]}
    elif tsel <= 4:
        tp = draw(_free_pairs())
        if draw(st.booleans()):
            tp.append([draw(st.sampled_from(["COMBOS", "VERSION", "LABELS", "TITLE", "JACKET"])), "template value"])
        seen = set()
        tp = [p for p in tp if not (p[0] in seen or seen.add(p[0]))]
        stmpl = {
            "base": draw(st.sampled_from(["blank", "empty"])) if tp else "blank",
            "del": [],
            "props": tp,
            "charts": [{"fields": ["tmpl", "", "Easy", "3", "", "0000"], "extra": ["x"]}] if draw(st.booleans()) else [],
        }
    ctmpl = None
    if draw(st.sampled_from([False, False, False, True])):
        ctmpl = {"fields": ["pump-single", "tmpl desc", "Hard", "9", "0,0,0", "1111\n0000"], "extra": draw(st.sampled_from([None, ["e1", "e2"]]))}

    return {
        "kind": "ssc2sm",
        "src": {"base": base, "del": dels, "props": props, "charts": charts},
        "beh": beh,
        "stmpl": stmpl,
        "ctmpl": ctmpl,
        "subclass": (stmpl is not None or ctmpl is not None) and draw(st.integers(0, 5)) == 0,
        "avoided": avoided,
    }


RT_BEH = {
    "SSC_VERSION": [None, "IGNORE", "COPY_ANYWAY"],
    "METADATA": [None, "IGNORE", "ERROR_UNLESS_DEFAULT"],
    "FILE_PATH": [None, "IGNORE", "ERROR_UNLESS_DEFAULT", "COPY_ANYWAY"],
    "GAMEPLAY_EVENT": [None, "IGNORE", "ERROR_UNLESS_DEFAULT"],
    "TIMING_DATA": [None, "IGNORE", "ERROR_UNLESS_DEFAULT"],
}


@st.composite
def s_roundtrip(draw):
    """SM sources without SSC-only keys (and without the contested simfile TIMESIGNATURES) under mappings that cannot
    refuse the blank SSC template's values"""
    timing = [["OFFSET", draw(G.OFFSETS)], ["BPMS", draw(G.bpms())], ["STOPS", draw(G.stops())]]
    if draw(st.booleans()):
        timing.append(["DELAYS", draw(G.stops())])
    free = [p for p in draw(_free_pairs()) if p[0] not in ("OFFSET", "BPMS", "STOPS", "DELAYS")]
    allp = timing + free
    order = draw(st.permutations(list(range(len(allp)))))
    props = [allp[i] for i in order]
    seen = set()
    props = [p for p in props if not (p[0] in seen or seen.add(p[0]))]
    charts = []
    for _ in range(draw(st.sampled_from([0, 1, 1, 2, 3]))):
        fields = [v.strip() for v in draw(st.lists(G.value(allow_none=False), min_size=5, max_size=5))]
        fields.append(draw(G.notedata()))
        charts.append({"fields": fields, "extra": draw(st.sampled_from([None, None, ["x"]]))})
    beh = {}
    if draw(st.booleans()):
        for t in TYPES:
            b = draw(st.sampled_from(RT_BEH[t]))
            if b is not None:
                beh[t] = b
    return {"kind": "roundtrip", "src": {"base": draw(st.sampled_from(["blank", "empty"])), "del": [], "props": props, "charts": charts}, "beh": beh}


# ---- enumerated family: every total/partial mapping (5 options per kind) over fixed sources

_SIX_CHART = {"base": "empty", "del": [], "items": [["STEPSTYPE", "dance-single"], ["NOTES", "1000\n0100\n0010\n0001"], ["DESCRIPTION", "d"], ["DIFFICULTY", "Hard"], ["METER", "9"], ["RADARVALUES", "0,0"]]}
FAMILY = [
    {   # simfile-level states of every kind, a chart with the six fields only: all 5^5 mappings are inside the domain
        "src": {"base": "empty", "del": [], "props": [
            ["VERSION", "0.83"], ["TITLE", "t"], ["JACKET", ""], ["COMBOS", " 0.000=1\n"], ["ORIGIN", "o"], ["FAKES", "1.000=1"],
            ["WARPS", ""], ["SCROLLS", "0.000=1.000"], ["FOO", None]], "charts": [_SIX_CHART]},
        "stmpl": None, "ctmpl": None, "radix": (5, 5, 5, 5, 5),
    },
    {   # blank simfile and blank chart with split-timing keys: COPY_ANYWAY for the kinds present on the chart is outside the domain
        "src": {"base": "blank", "del": [], "props": [["PREVIEW", "p.ogg"]], "charts": [
            {"base": "blank", "del": [], "items": [["TICKCOUNTS", "0.000=4"], ["OFFSET", ""], ["STOPS", " "], ["SPEEDS", "\t0.000=1.000=0.000=0 "]]}]},
        "stmpl": None, "ctmpl": None, "radix": (5, 4, 5, 4, 4),
    },
    {   # templates given; first offender may sit on the second chart
        "src": {"base": "empty", "del": [], "props": [["VERSION", ""], ["LABELS", "0.000=Song Start"], ["SPEEDS", ""], ["TITLE", "x"]], "charts": [
            _SIX_CHART, {"base": "empty", "del": [], "items": [["CHARTNAME", "n"], ["METER", "5"], ["DELAYS", "1.000=1"], ["NOTES", "0000"]]}]},
        "stmpl": {"base": "empty", "del": [], "props": [["TITLE", "tmpl"], ["SPEEDS", "kept"], ["GENRE", "g"]], "charts": [{"fields": ["a", "b", "c", "d", "e", "0"], "extra": ["x"]}]},
        "ctmpl": {"fields": ["T", "desc", "Hard", "9", "r", "1111"], "extra": None}, "radix": (5, 4, 5, 5, 4),
    },
]
_OPTS5 = (None,) + BEHS
_OPTS4 = (None, "IGNORE", "ERROR_UNLESS_DEFAULT", "ERROR")


def _decode_mapping(idx, radix):
    beh = {}
    for t, r in zip(TYPES, radix):
        idx, d = divmod(idx, r)
        b = (_OPTS5 if r == 5 else _OPTS4)[d]
        if b is not None:
            beh[t] = b
    return beh


def _family_iter(members, chunk=125):
    def it(shard, nshards):
        i = 0
        for m in members:
            total = 1
            for r in FAMILY[m]["radix"]:
                total *= r
            for lo in range(0, total, chunk):
                if i % nshards == shard:
                    yield {"kind": "family", "member": m, "lo": lo, "hi": min(total, lo + chunk)}
                i += 1

    return it


def _corpus_cases():
    lenient = {"GAMEPLAY_EVENT": "IGNORE", "TIMING_DATA": "IGNORE"}
    out = []
    for f, behs in (
        ("Springtime/Springtime.ssc", [{}, lenient, {"METADATA": "ERROR"}, {"GAMEPLAY_EVENT": "IGNORE"}, {"SSC_VERSION": "COPY_ANYWAY", "FILE_PATH": "COPY_ANYWAY", **lenient}, {"FILE_PATH": "ERROR_UNLESS_DEFAULT", **lenient}]),
        # L9's chart carries NOTES2 (known finding): only mappings that refuse an earlier property are inside the domain
        ("L9/L9.ssc", [{}, {"TIMING_DATA": "ERROR"}, {"METADATA": "ERROR_UNLESS_DEFAULT"}]),
        ("blank/blank.ssc", [{}, {"METADATA": "ERROR"}]),
    ):
        for beh in behs:
            out.append({"kind": "corpus", "file": f, "beh": beh, "stmpl": None, "ctmpl": None})
    out.append({"kind": "corpus", "file": "Springtime/Springtime.ssc", "beh": lenient,
                "stmpl": {"base": "empty", "del": [], "props": [["TITLE", "overridden"], ["GENRE", "kept"]], "charts": []},
                "ctmpl": {"fields": ["a", "b", "c", "d", "e", "0"], "extra": ["x"]}})
    return out


def parts(tier):
    q = tier == "quick"
    return [
        {"name": "corpus", "kind": "fixed", "cases": _corpus_cases},
        {"name": "mapping-family", "kind": "enum", "iter": _family_iter([0, 1] if q else [0, 1, 2]), "exhaustive": True},
        {"name": "ssc2sm", "kind": "hypothesis", "strategy": s_ssc2sm, "examples": 5000 if q else 16 * 10000},
        {"name": "roundtrip", "kind": "hypothesis", "strategy": s_roundtrip, "examples": 1500 if q else 16 * 3000},
    ]
