"""
C06 - A failed or cancelled mutate never damages the input file.

Fault enumeration: a case is one base configuration (format, filesystem, output/backup names, pre-existing files,
file body, edit script) plus a fault family; `check` enumerates every fault point of that family for that
configuration and judges each one from directory snapshots (file name -> bytes) taken before and after.

  body            an exception object of each class raised at every position 0..n of the n-step edit script
  unserialisable  each way the public API allows to make the edited simfile impossible to write
  unencodable     a character the detected encoding lacks, at each of several places
  fsfault         a fault-free run through a recording filesystem wrapper lists the open/write/flush/close calls on
                  files opened for writing; the case is re-run once per call k (and per failure variant) with OSError
                  raised at call k
"""
from hypothesis import strategies as st

from .. import fsfault as ff
from ..core import HarnessError, Verdict, Violation

ID = "C06"
LEVEL = "fault_enumeration"
RULE = (
    "grid part (complete): {.sm,.ssc} x {native temp dir, MemoryFS} x output name {none, other} x backup {none, other} x "
    "body encoded in and detected as {utf-8, cp1252, cp932, cp949} x fault family {body exception, unserialisable, "
    "unencodable, filesystem fault} with a fixed two-property one-chart body and a three-step edit script; random part "
    "(Hypothesis): the same axes plus pre-existing output/backup files, bystander files, try_encodings variants, "
    "generated bodies (0-4 properties, 0-2 charts, text from the code page's repertoire) and edit scripts of 0-4 steps. "
    "Inside a case every fault point is enumerated: body = 8 exception objects (ValueError, custom Exception subclass, "
    "KeyboardInterrupt, SystemExit, GeneratorExit, CancelMutation instance / class / subclass instance) x positions "
    "0..n; unserialisable = non-string property value (first / last key; int, bytes, None, None under a multi-value key), "
    "non-string chart field / extra component, SSC chart without note data, charts entry that is not a chart (str, None, "
    "dict); unencodable = a character the detected encoding lacks in the first value / a new last value / a new key / a "
    "chart field; fsfault = every recorded call k x {fail before the call; for writes also: store half the payload then "
    "fail; for close: close then fail}.  Every (configuration, fault kind, position) is one evaluation and is "
    "non-trivial; in the grid part distinct = fault points, in the random part distinct = distinct base cases."
)
RULE += " " + "Added after the seeding rounds: family 'clash' - a backup name equal to the input's or the output's name is refused with ValueError before the block runs and nothing changes (the clause is stated with C05; accepted, the save would overwrite the original with its own re-serialization)."
RULE += " " + 'Round 7: unencodable family also with U+2028 / U+0085 (characters str.splitlines() treats as line breaks) and with a decomposed base + combining sequence whose composed form the code page has.'
ASSUMPTIONS = [
    "faults are exceptions at call boundaries of the filesystem object handed to mutate (no power-loss / torn-write model)",
    "CPython codecs decide what the detected encoding is and what it can represent",
    "the loader applied to decoded text defines what a backup 'parses to' (C03)",
    "PyFilesystem2 MemoryFS / WrapFS",
]


class CustomError(Exception):
    """a user-defined Exception subclass raised inside the block"""


def need(cond, msg):
    if not cond:
        raise Violation(msg)


def _names(case):
    suffix = case["suffix"]
    inp = "song" + suffix
    # out == "alias": an output name that is a different string but names the input file itself -> the target is the input
    out = ("out" + suffix) if case["out"] and case["out"] != "alias" else None
    bak = (inp + case.get("bak_ext", ".old")) if case["bak"] else None
    return inp, out, bak


def _describe(case):
    return (
        f"{case['suffix']} on {case['fs']} fs, out={case['out']}, bak={case['bak']}, try_encodings={case.get('encs')}, errors={case.get('errors')}, "
        f"data={bytes.fromhex(case['data'])[:120]!r}, script={case['script']!r}"
    )


class Run:
    """one configuration in one scratch directory, re-initialised before every fault point"""

    def __init__(self, case, d):
        import simfile

        self.simfile = simfile
        self.case = case
        self.d = d
        self.desc = _describe(case)
        self.inp, self.out, self.bak = _names(case)
        self.target = self.out or self.inp
        data = bytes.fromhex(case["data"])
        files = {self.inp: data}
        if case.get("bystanders"):
            files["other" + case["suffix"]] = b"#TITLE:bystander;\n"
            for n in ff.tempish_names(self.inp, self.out):
                if n not in (self.inp, self.out, self.bak):
                    files[n] = b"#TITLE:do not touch " + n.encode() + b";\n"
        if self.out and case.get("pre_out"):
            files[self.out] = b"#TITLE:" + b"old output " * 30 + b";\n"
        if self.bak and case.get("pre_bak"):
            files[self.bak] = b"#TITLE:" + b"old backup " * 30 + b";\n"
        self.files = files
        self.kw = {}
        if case.get("encs") is not None:
            self.kw["try_encodings"] = list(case["encs"])
        tried = list(case["encs"]) if case.get("encs") is not None else list(ff.MAIN_ENCODINGS)
        ref = ff.ref_decode(data, tried)
        self.enc = ref[0] if ref else None
        # a non-default error handler passed through to open() (mutate's keyword arguments): only used when the body
        # decodes strictly under the first tried encoding, so that detection does not depend on the handler
        if case.get("errors") and ref and ref[0] == tried[0]:
            self.kw["errors"] = case["errors"]
        self.ref = ref
        self.entry = None  # picture of the simfile as loaded, taken inside the block

    def outside_domain(self):
        """reason why this body is not a base case (left-overs of the generator's repairs), or None"""
        from msdparser import MSDParserError

        if self.ref is None:
            return "body does not decode under the tried encodings"
        _, uni, raw = self.ref
        pictures = []
        for text in {uni, raw}:
            try:
                pictures.append(ff.canon(ff.parse_reference(self.case["suffix"], text, True)))
            except (MSDParserError, ValueError):
                return "reference loader rejects the decoded text"
        for p in pictures:
            if ff.in_gap(p):
                return "msdparser dependency gap (left over after repair)"
            if not ff.picture_encodable(p, self.enc):
                return "loaded simfile not representable in the detected encoding"
            if ff.picture_has_bare_cr(p):
                return "bare carriage return in a value"
        return None

    def reset(self):
        self.d.reset(self.files)
        return self.d.snapshot()

    def mutate(self, filesystem=None):
        kw = dict(self.kw)
        if filesystem is not None:
            kw["filesystem"] = filesystem
        else:
            kw.update(self.d.fs_kwargs())
        return self.simfile.mutate(
            self.d.path(self.inp),
            output_filename=self.d.path(self.out) if self.out else (self.alias_of_input() if self.case.get("out") == "alias" else None),
            backup_filename=self.d.path(self.bak) if self.bak else None,
            **kw,
        )

    def alias_of_input(self):
        p = self.d.path(self.inp)
        head, sep, tail = p.rpartition("/")
        return head + "/./" + tail if sep else "./" + p

    def apply(self, sf, ops):
        for op in ops:
            ff.apply_edit(sf, op, self.enc)

    # ---- judgements shared by the save-failure families

    def others_untouched(self, before, after, where):
        allowed = {self.target} | ({self.bak} if self.bak else set())
        for n in sorted(set(before) | set(after)):
            if n not in allowed:
                need(
                    before.get(n) == after.get(n),
                    f"{where}: file {n!r} was {'created' if n not in before else 'changed'} (only {sorted(allowed)} may be written): "
                    f"{ff.short(before.get(n))} -> {ff.short(after.get(n))}; {self.desc}",
                )

    def backup_is_complete(self, after, where):
        from msdparser import MSDParserError

        data = after.get(self.bak)
        need(data is not None, f"{where}: the backup file {self.bak!r} does not exist; {self.desc}")
        try:
            text = ff.decode_with(data, self.enc)
            got = ff.canon(ff.parse_reference(self.case["suffix"], text, True))
        except (UnicodeDecodeError, MSDParserError, ValueError) as e:
            raise Violation(f"{where}: the backup file does not decode/parse ({type(e).__name__}: {e}): {ff.short(data, 200)}; {self.desc}")
        need(got == self.entry, f"{where}: the backup file parses to {got!r}, the simfile as loaded was {self.entry!r}; {self.desc}")

    def judge_failed_save(self, before, after, where, input_must_survive, backup_closed=None):
        """
        input_must_survive: the statement promises the original bytes (unserialisable / unencodable / failed open).
        backup_closed: True/False when the wrapper saw it, None when unknown (then: the backup file's bytes changed).
        """
        self.others_untouched(before, after, where)
        damaged = after.get(self.inp) != before.get(self.inp)
        if backup_closed is None:
            backup_written = self.bak is not None and after.get(self.bak) != before.get(self.bak)
        else:
            backup_written = self.bak is not None and backup_closed
        if input_must_survive:
            need(
                not damaged,
                f"{where}: the input file no longer holds its original bytes: {ff.short(before.get(self.inp), 100)} -> "
                f"{ff.short(after.get(self.inp), 100)}; {self.desc}",
            )
        if backup_written:
            self.backup_is_complete(after, where)
        if damaged and self.bak is not None:
            need(
                backup_written,
                f"{where}: the input file was overwritten ({ff.short(after.get(self.inp), 100)}) before the requested backup was "
                f"completely written - the original is lost; {self.desc}",
            )
        return damaged


# --------------------------------------------------------------------------------------------------------------
# family: exceptions raised by the body

BODY_KINDS = ["ValueError", "CustomError", "KeyboardInterrupt", "SystemExit", "GeneratorExit", "CancelMutation()", "CancelMutation", "CancelMutation-subclass"]


def _make_exception(kind, simfile):
    if kind == "ValueError":
        return ValueError("raised by the body"), False
    if kind == "CustomError":
        return CustomError("raised by the body", 42), False
    if kind == "KeyboardInterrupt":
        return KeyboardInterrupt(), False
    if kind == "SystemExit":
        return SystemExit(3), False
    if kind == "GeneratorExit":
        return GeneratorExit(), False
    if kind == "CancelMutation()":
        return simfile.CancelMutation("cancelled"), True
    if kind == "CancelMutation":
        return simfile.CancelMutation, True  # `raise CancelMutation` as in the documentation

    class Cancelled(simfile.CancelMutation):
        pass

    return Cancelled(), True


def family_body(run):
    script = run.case["script"]
    evals = 0
    for kind in BODY_KINDS:
        for pos in range(len(script) + 1):
            before = run.reset()
            exc, swallowed = _make_exception(kind, run.simfile)
            entered = False
            escaped = None
            try:
                with run.mutate() as sf:
                    entered = True
                    run.apply(sf, script[:pos])
                    raise exc
            except BaseException as e:  # noqa - KeyboardInterrupt / SystemExit / GeneratorExit are raised on purpose
                if not entered or (e is not exc and isinstance(e, HarnessError)):
                    raise
                escaped = e
            where = f"body raises {kind} after {pos} of {len(script)} edits"
            if swallowed:
                need(escaped is None, f"{where}: {type(escaped).__name__} left the with block, CancelMutation must be swallowed; {run.desc}")
            else:
                need(escaped is not None, f"{where}: no exception left the with block; {run.desc}")
                need(
                    escaped is exc,
                    f"{where}: the exception leaving the with block is {escaped!r} (a {type(escaped).__name__}), not the raised object {exc!r}; {run.desc}",
                )
            after = run.d.snapshot()
            need(
                after == before,
                f"{where}: files {ff.diff_names(before, after)} were created or modified: "
                + "; ".join(f"{n}: {ff.short(before.get(n))} -> {ff.short(after.get(n))}" for n in ff.diff_names(before, after))
                + f"; {run.desc}",
            )
            evals += 1
    return evals, ["family:body"]


# --------------------------------------------------------------------------------------------------------------
# families: the edited simfile cannot be written


def _ensure_chart(sf):
    """a chart to spoil: the last one, appended (blank) if there is none"""
    SMChart, SSCChart = ff._chart_classes()
    if not len(sf.charts):
        sf.charts.append((SSCChart if type(sf).__name__ == "SSCSimfile" else SMChart).blank())
    return sf.charts[-1]


def _first_key(sf):
    for k in sf.keys():
        return k
    sf["TITLE"] = "t"
    return "TITLE"


UNSERIALISABLE = [
    "first-value-int", "last-value-int", "first-value-bytes", "last-value-none", "first-value-none", "multi-value-none",
    "chart-field-int", "chart-extra-int", "ssc-chart-without-notes", "ssc-empty-chart", "charts-entry-str", "charts-entry-none",
    "charts-entry-dict", "charts-entry-first-str",
]


def _spoil(sf, way):
    """returns False when the way does not apply to this format"""
    SMChart, SSCChart = ff._chart_classes()
    is_ssc = type(sf).__name__ == "SSCSimfile"
    if way == "first-value-int":
        sf[_first_key(sf)] = 7
    elif way == "last-value-int":
        sf["ZLAST"] = 7
    elif way == "first-value-bytes":
        sf[_first_key(sf)] = b"bytes"
    elif way == "last-value-none":
        sf["ZLAST"] = None
    elif way == "first-value-none":
        k = _first_key(sf)
        if k in ff.MULTI_VALUE:
            return False
        sf[k] = None
    elif way == "multi-value-none":
        sf["ATTACKS"] = None
    elif way == "chart-field-int":
        _ensure_chart(sf)["METER"] = 5
    elif way == "chart-extra-int":
        if is_ssc:
            return False
        _ensure_chart(sf).extradata = ["x", 5]
    elif way == "ssc-chart-without-notes":
        if not is_ssc:
            return False
        ch = _ensure_chart(sf)
        for k in ("NOTES", "NOTES2"):
            ch.pop(k, None)
    elif way == "ssc-empty-chart":
        if not is_ssc:
            return False
        sf.charts.append(SSCChart())
    elif way == "charts-entry-str":
        sf.charts.append("not a chart")
    elif way == "charts-entry-none":
        sf.charts.append(None)
    elif way == "charts-entry-dict":
        sf.charts.append({"STEPSTYPE": "dance-single"})
    elif way == "charts-entry-first-str":
        sf.charts.insert(0, "not a chart")
    else:
        raise HarnessError(way)
    return True


UNENCODABLE = ["first-value", "last-value", "new-key", "chart-field", "chart-notes", "chart-extradata", "chart-extradata-in-place"]


def _spoil_encoding(sf, place, ch):
    if place == "first-value":
        k = _first_key(sf)
        sf[k] = ch + (sf[k] or "")
    elif place == "last-value":
        sf["ZLAST"] = "abc" + ch
    elif place == "new-key":
        sf["Z" + ch] = "v"
    elif place == "chart-field":
        _ensure_chart(sf)["DESCRIPTION"] = "d" + ch
    elif place == "chart-notes":
        c = _ensure_chart(sf)
        nk = "NOTES" if ("NOTES" in c or "NOTES2" not in c) else "NOTES2"
        c[nk] = "0000\n0000\n" + ch + "\n0000"
    elif place in ("chart-extradata", "chart-extradata-in-place"):
        SMChart, _ = ff._chart_classes()
        c = _ensure_chart(sf)
        if not isinstance(c, SMChart):
            return False
        if place == "chart-extradata" or c.extradata is None:
            c.extradata = list(c.extradata or []) + ["x" + ch]
        else:
            c.extradata.append("x" + ch)
    else:
        raise HarnessError(place)
    return True


def _family_unwritable(run, family, ways, spoil):
    script = run.case["script"]
    evals = 0
    labels = ["family:" + family]
    for way in ways:
        before = run.reset()
        applicable = True
        entered = False
        failure = None
        try:
            with run.mutate() as sf:
                entered = True
                run.entry = ff.canon(sf)
                run.apply(sf, script)
                applicable = spoil(sf, way)
                if not applicable:
                    raise run.simfile.CancelMutation
        except Exception as e:  # the class of a save failure is not specified
            if not entered or isinstance(e, (HarnessError, Violation)):
                raise
            failure = e
        if not applicable:
            continue
        evals += 1
        where = f"{family} ({way})"
        if failure is None:
            # the library managed to write it: not a failed save, nothing is claimed
            labels.append(f"saved-anyway:{way}")
            continue
        labels.append(f"save-failed:{type(failure).__name__}")
        after = run.d.snapshot()
        run.judge_failed_save(before, after, f"{where}: saving failed with {type(failure).__name__}: {failure}", input_must_survive=True)
    return evals, labels


def family_unserialisable(run):
    return _family_unwritable(run, "unserialisable", UNSERIALISABLE, _spoil)


# a base letter followed by a combining mark: the *composed* character exists in the code page, the sequence as written
# does not encode (decomposed text, as file names and pasted text from macOS carry it)
DECOMPOSED = {"cp1252": "e\u0301", "cp932": "\u304b\u3099", "cp949": "\u1100\u1161"}


def family_unencodable(run):
    ch = ff.unencodable_char(run.enc)
    if ch is None:
        return 0, ["family:unencodable", "every-character-encodable"]
    if ff.can_encode(ch, run.enc):
        raise HarnessError("unencodable character is encodable")
    evals, labels = _family_unwritable(run, "unencodable", UNENCODABLE, lambda sf, place: _spoil_encoding(sf, place, ch))
    for sep in ("\u2028", "\x85"):
        # characters that str.splitlines() treats as line breaks: they are characters of the text like any other
        if not ff.can_encode(sep, run.enc):
            e3, l3 = _family_unwritable(run, "unencodable", UNENCODABLE[:3], lambda sf, place: _spoil_encoding(sf, place, sep))
            evals += e3
            labels = labels + l3 + ["unencodable:line-separator-character"]
            break
    seq = DECOMPOSED.get(run.enc)
    if seq and not ff.can_encode(seq, run.enc):
        e2, l2 = _family_unwritable(run, "unencodable", UNENCODABLE, lambda sf, place: _spoil_encoding(sf, place, seq))
        evals += e2
        labels = labels + l2 + ["unencodable:decomposed-sequence"]
    return evals, labels


# --------------------------------------------------------------------------------------------------------------
# family: the k-th filesystem call fails


def family_fsfault(run):
    script = run.case["script"]

    def attempt(plan):
        before = run.reset()
        fsobj = ff.make_fault_fs(run.d, plan)
        entered = False
        escaped = None
        try:
            with run.mutate(filesystem=fsobj) as sf:
                entered = True
                run.entry = ff.canon(sf)
                run.apply(sf, script)
        except ff.Fault as e:
            if not entered and not plan.fired:
                raise
            escaped = e
        return before, run.d.snapshot(), escaped

    # fault-free run: records the call sequence
    rec = ff.Plan(at=None)
    before, after, escaped = attempt(rec)
    log = list(rec.log)
    opened = [name for op, name, _ in log if op == "open"]
    if not opened and after == before:
        # nothing was written by any means in the fault-free run (e.g. a library that skips an unchanged save):
        # there is no save sequence to inject faults into; whether skipping is acceptable is C05's subject
        return 0, ["family:fsfault", "fault-free-run-wrote-nothing"]
    if run.target not in opened or (run.bak and run.bak not in opened):
        # the library saves through a path the wrapper does not follow (e.g. a temporary file renamed over the target):
        # the recorded calls are still failed one by one below, but only calls on the output / backup names can be
        # attributed to a stage; nothing is concluded from the others beyond the generic judgement
        labels_extra = ["save-path-not-directly-observable"]
    else:
        labels_extra = []
    run.others_untouched(before, after, "fault-free run through the recording filesystem")

    evals = 0
    labels = ["family:fsfault", "calls:%d" % len(log)] + labels_extra
    for k, (op, name, size) in enumerate(log):
        variants = ["before"]
        if op == "write" and size >= 2:
            variants.append("partial")
        for variant in variants:
            plan = ff.Plan(at=k, variant=variant)
            before, after, escaped = attempt(plan)
            if not plan.fired:
                raise HarnessError(f"call {k} ({op} {name}) of the fault-free run was not reached again (calls now: {plan.log}); the call sequence is not deterministic")
            role = "backup" if name == run.bak else "output" if name == run.target else "other"
            where = f"OSError injected at filesystem call {k} = {op} of the {role} file {name!r} ({variant}); calls {[(o, n) for o, n, _ in plan.log]}"
            backup_closed = run.bak in plan.completed if run.bak else False
            damaged = run.judge_failed_save(before, after, where, input_must_survive=(op == "open"), backup_closed=backup_closed)
            evals += 1
            labels.append(f"fault:{op}:{role}" + (":partial" if variant == "partial" else ""))
            if damaged:
                labels.append("input-damaged-with-complete-backup" if run.bak else "input-damaged-no-backup-requested")
            if escaped is None:
                labels.append("fault-not-propagated")
    return evals, labels


def family_clash(run):
    """A backup name that is the input's or the output's own name must be refused before anything is written (stated
    with C05): were it accepted, saving would write the 're-serialized original' over the original itself, or the output
    over the backup - the original would be lost although a backup was asked for."""
    evals, labels = 0, ["family:clash"]
    keep = run.bak
    try:
        for which in ("input", "output"):
            name = run.inp if which == "input" else run.out
            if name is None:
                continue
            before = run.reset()
            run.bak = name
            entered = False
            try:
                with run.mutate() as sf:
                    entered = True
                    run.apply(sf, run.case["script"])
            except ValueError as e:
                if entered:
                    raise Violation(f"clash: backup name equal to the {which} name was only refused after the block ran: {e}; {run.desc}")
                after = run.d.snapshot()
                need(after == before, f"clash: backup name equal to the {which} name refused, but files {ff.diff_names(before, after)} changed; {run.desc}")
                evals += 1
                labels.append("clash:" + which + ("+out" if run.out else ""))
                continue
            raise Violation(f"clash: backup_filename equal to the {which} name ({name!r}, output {run.out!r}) was not refused with ValueError; files changed: {ff.diff_names(before, run.d.snapshot())}; {run.desc}")
    finally:
        run.bak = keep
    return evals, labels


FAMILIES = {"clash": family_clash, "body": family_body, "unserialisable": family_unserialisable, "unencodable": family_unencodable, "fsfault": family_fsfault}


def check(case):
    d = ff.make_dir(case["fs"])
    try:
        run = Run(case, d)
        reason = run.outside_domain()
        if reason:
            return Verdict(excluded=reason)
        evals, labels = FAMILIES[case["family"]](run)
        labels = sorted(set(labels)) + ["fs:" + case["fs"], "suffix:" + case["suffix"], "detected:" + run.enc,
                                       "config:" + ("out" if case["out"] else "inplace") + ("+bak" if case["bak"] else "")]
        if evals == 0:
            return Verdict(excluded="no fault point applies")
        return Verdict(nontrivial=True, labels=labels, evals=evals, weight=evals)
    finally:
        d.close()


# --------------------------------------------------------------------------------------------------------------
# generators

GRID_CHAR = {"utf-8": "ミ", "cp1252": "é", "cp932": "、テ", "cp949": "곖"}  # each forces its encoding to be detected
GRID_SCRIPT = [["attr", "title", ["edited"]], ["set", "NEWKEY", ["a:b;c"]], ["chart_set", 0, "DESCRIPTION", ["changed"]]]


def _grid_body(suffix, enc):
    c = GRID_CHAR[enc]
    if suffix == ".ssc":
        text = (
            f"#VERSION:0.83;\n#TITLE:{c} title;\n#ARTIST:someone;\n#NOTEDATA:;\n#STEPSTYPE:dance-single;\n#DESCRIPTION:{c};\n"
            "#DIFFICULTY:Easy;\n#METER:3;\n#RADARVALUES:0,0;\n#NOTES:\n0000\n0000\n0000\n0000\n;\n"
        )
    else:
        text = (
            f"#TITLE:{c} title;\n#ARTIST:someone;\n#NOTES:\n     dance-single:\n     {c}:\n     Easy:\n     3:\n     0,0:\n0000\n0000\n0000\n0000\n;\n"
        )
    return text.encode(enc)


def _grid():
    items = []
    for suffix in (".sm", ".ssc"):
        for fs_kind in ("native", "mem"):
            for out in (False, True):
                for bak in (False, True):
                    for enc in ff.MAIN_ENCODINGS:
                        for family in ("body", "unserialisable", "unencodable", "fsfault") + (("clash",) if not bak else ()):
                            items.append(
                                {
                                    "family": family, "fs": fs_kind, "suffix": suffix, "out": out, "bak": bak, "pre_out": False, "pre_bak": False,
                                    "bystanders": True, "encs": None, "data": _grid_body(suffix, enc).hex(), "script": GRID_SCRIPT,
                                }
                            )
    return items


def _grid_iter(shard, nshards):
    for i, item in enumerate(_grid()):
        if i % nshards == shard:
            yield item


@st.composite
def s_case(draw):
    suffix = draw(st.sampled_from([".sm", ".ssc"]))
    enc = draw(st.sampled_from(ff.MAIN_ENCODINGS))
    text = draw(ff.s_document(enc, suffix, keyonly=False, stray=False, max_props=4, max_charts=2))
    encs = draw(st.sampled_from([None, None, None, [enc], ["utf-8", enc], list(reversed(ff.MAIN_ENCODINGS)), ["cp932", "cp949", "utf-8", "cp1252"]]))
    return {
        "family": draw(st.sampled_from(["body", "unserialisable", "unencodable", "fsfault", "fsfault"] * 3 + ["clash"])),
        "fs": draw(st.sampled_from(["mem", "native"])),
        "suffix": suffix,
        "out": draw(st.sampled_from([False, False, True, True, "alias"])),
        "bak": draw(st.booleans()),
        "pre_out": draw(st.booleans()),
        "pre_bak": draw(st.booleans()),
        "bystanders": draw(st.booleans()),
        "bak_ext": draw(st.sampled_from([".old", ".old", ".tmp", ".bak", "~"])),
        "errors": draw(st.sampled_from([None, None, None, None, "strict", "replace", "ignore", "surrogateescape", "backslashreplace", "xmlcharrefreplace"])),
        "encs": encs,
        "data": text.encode(enc).hex(),
        "script": draw(ff.s_script(suffix, max_ops=4, none_values=False)),
    }


def parts(tier):
    q = tier == "quick"
    return [
        {"name": "grid", "kind": "enum", "iter": _grid_iter, "exhaustive": True},
        {"name": "random", "kind": "hypothesis", "strategy": s_case, "examples": 1600 if q else 16 * 4000},
    ]
