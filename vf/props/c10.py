"""
C10 - Ungrouping grouped notes restores the original note stream.

Oracle: round trip  stream -> group_notes -> ungroup_notes  against the stream itself (minus exactly the orphans the
two-pass model of vf/model_group.py names when a DROP policy is used); for hand-built grouped sequences the expected
notes are computed from the sequence (heads, plain notes, one tail per hold; splitting notes = plain notes strictly
between head and tail on the hold's column).
"""
from fractions import Fraction as F

from hypothesis import strategies as st

from .. import model_group as MG
from ..core import Verdict, Violation
from .c09 import lib, real_notes, show, corpus_streams, stream_domain_problem, as_form, FORM_NAMES

ID = "C10"
LEVEL = "exploration"
RULE = (
    "grid part (exhaustive): every stream on 2 columns x 3 rows with each cell one of {empty, tap, hold head with "
    "keysound index, tail, mine with keysound index} (thorough: also roll head; and 2 x 4 rows over the five kinds), "
    "each under 3 same-beat modes x [join off | join on x orphan policies (keep,keep) (drop,keep) (keep,drop) "
    "(drop,drop)] x the 3 orphaned_notes policies of ungroup_notes = 45 combinations, plus RAISE policies of group_notes "
    "where the model has no orphan of that kind and the calls with options omitted; a stream is non-trivial when it has "
    ">= 1 joined hold and (a keysounded joined head, or >= 2 joined holds open at once, or an orphan that a DROP policy "
    "removes) and then counts 45 distinct items. Random part (Hypothesis): the C09 streams (1..6 columns, 1..12 rows, "
    "arbitrary beat denominators, all note types, keysound indices on anything but tails) x include_note_types "
    "(omitted, defaults, {2,3}, {4,3}, random subsets) under the same combinations. Hand-built part (Hypothesis): "
    "position-sorted grouped sequences over 1..4 columns of plain Notes and NoteWithTails (holds on different columns "
    "may overlap; never nested on one column; nothing on a hold's tail position), with plain notes of any type placed "
    "strictly inside holds on their column and on other columns, laid out one note per group / one group per beat / "
    "per type, under the 3 policies and the default; non-trivial = a splitting note or a keysounded hold. Fixed part: "
    "every corpus chart per player x 4 include sets. distinct = distinct case JSON"
)
RULE += " " + "Added after the seeding rounds: the stream is handed to group_notes as list, one-shot iterator, generator and NoteData object in rotation; hand-built sequences include a note-with-tail whose head lies inside another one on its column (RAISE and KEEP judged exactly; under DROP the inner hold's own tail may be present or absent)."
RULE += " " + "Round 6: part 'long-holds' as in C09; groups are handed to ungroup_notes as lists or as tuples (any Sequence of notes is a group)."
ASSUMPTIONS = [
    "reference model vf/model_group.py names the orphans that DROP policies remove",
    "streams have unique (beat, column) positions; tails carry no keysound index (the property's domain)",
    "hand-built sequences: the keysound index of a regenerated tail is not compared (the statement only says which notes are present)",
]

GRID_KS = {"2": 7, "M": 3}
COMBOS = 45
JOIN_PAIRS = [("keep", "keep"), ("drop", "keep"), ("keep", "drop"), ("drop", "drop")]
UNGROUP = ("raise", "keep", "drop")
CORPUS_INCLUDES = [None, "23", "234", MG.COUNT_DEFAULT]
KS_DEFECT = "regenerated tail carries a keysound index"


def need(c, msg):
    if not c:
        raise Violation(msg() if callable(msg) else msg)


def _key(n):
    return (n[0], n[1], n[2], n[3], -1 if n[4] is None else n[4])


def _same(out, exp, by_type):
    if by_type:
        return sorted(out, key=_key) == sorted(exp, key=_key) and all(a[0] <= b[0] for a, b in zip(out, out[1:]))
    return out == exp


def plain(L, raw, what):
    out = []
    for n in raw:
        if not isinstance(n, L.Note):
            raise Violation(f"{what()}: ungroup_notes yielded a {type(n).__name__}: {n!r}")
        out.append((n.beat, n.column, n.note_type.value, n.player, n.keysound_index))
    return out


def fmt(notes, limit=40):
    return show([(F(n[0]),) + tuple(n[1:]) for n in notes], limit)


def compare(out, exp, by_type, what, tails_modulo_keysound=False):
    if tails_modulo_keysound:
        out = [(n[0], n[1], n[2], n[3], None) if n[2] == MG.TAIL else n for n in out]
        exp = [(n[0], n[1], n[2], n[3], None) if n[2] == MG.TAIL else n for n in exp]
    if _same(out, exp, by_type):
        return
    what = what()
    stripped = [(n[0], n[1], n[2], n[3], None) if n[2] == MG.TAIL else n for n in out]
    if _same(stripped, exp, by_type):
        bad = [n for n in out if n[2] == MG.TAIL and n[4] is not None]
        raise Violation(
            f"{what}: {KS_DEFECT} (copied from its head): {fmt(bad, 6)}; got {fmt(out)}, expected {fmt(exp)}"
        )
    missing = [n for n in exp if n not in out]
    extra = [n for n in out if n not in exp]
    rule = "the same notes with beats non-decreasing" if by_type else "the same notes in the same order"
    raise Violation(f"{what}: got {fmt(out)}, expected {fmt(exp)} ({rule}); missing {fmt(missing, 8)}, unexpected {fmt(extra, 8)}")


def group_kwargs(L, include, mode, join, pair):
    kw = {"same_beat_notes": L.MODE[mode]}
    if include is not None:
        kw["include_note_types"] = frozenset(L.T[c] for c in include)
    if join:
        kw["join_heads_to_tails"] = True
    if pair is not None:
        kw["orphaned_head"] = L.POL[pair[0]]
        kw["orphaned_tail"] = L.POL[pair[1]]
    return kw


def roundtrip(L, notes, include, extra_off_pairs=((None,), (("drop", "drop"),)), with_default=True):
    """every combination for one stream and one include set; returns (evaluations, model)"""
    rnotes = real_notes(L, notes)
    M = MG.Model(notes, include if include is not None else MG.ALL_TYPES)
    inc = M.included()
    oh, ot = set(M.orphan_heads), set(M.orphan_tails)
    idx = [i for i, f in enumerate(M.fate) if f is not None]
    n = 0
    pols = UNGROUP + ((None,) if with_default else ())
    for mode in MG.MODES:
        by_type = mode == "by_type"
        plans = [(False, p[0], inc) for p in extra_off_pairs]
        pairs = list(JOIN_PAIRS)
        if not oh:
            pairs += [("raise", "keep"), ("raise", "drop")]
        if not ot:
            pairs += [("keep", "raise"), ("drop", "raise")]
        if not oh and not ot:
            pairs += [("raise", "raise"), None]
        for pair in pairs:
            h, t = pair if pair else ("raise", "raise")
            exp = [notes[i] for i in idx if not (h == "drop" and i in oh) and not (t == "drop" and i in ot)]
            plans.append((True, pair, exp))
        for pi, (join, pair, exp) in enumerate(plans):
            # the stream is an Iterable[Note]: list, one-shot iterator, NoteData object and generator in turn
            fi = pi + MG.MODES.index(mode)

            def opts(mode=mode, join=join, pair=pair, fi=fi):
                return (f"stream passed{FORM_NAMES[fi % 4]}, " if fi % 4 else "") + f"include={'all (omitted)' if include is None else include!r} same_beat={mode} join={join} orphan policies={'omitted' if pair is None else pair}"

            try:
                g = list(L.group_notes(as_form(rnotes, fi), **group_kwargs(L, include, mode, join, pair)))
            except L.Orphaned as e:
                raise Violation(f"group_notes on {show(notes)} with {opts()} raised OrphanedNoteException({e}) although no orphan falls under a RAISE policy")
            except Exception as e:  # not documented: let it escape, but name the input
                e.add_note(f"input: group_notes on {show(notes)} with {opts()}")
                raise
            for pol in pols:

                def what(pol=pol, opts=opts):
                    return f"ungroup_notes(group_notes({show(notes)}, {opts()}), orphaned_notes={pol or 'omitted'})"

                try:
                    gg = [tuple(x) for x in g] if pol == "keep" else g  # groups as tuples: any Sequence of notes is a group
                    raw = list(L.ungroup_notes(gg, orphaned_notes=L.POL[pol])) if pol else list(L.ungroup_notes(iter(g)))
                except L.Orphaned as e:
                    raise Violation(f"{what()} raised OrphanedNoteException({e}) although group_notes never puts a note inside a joined hold")
                except Exception as e:  # not documented: let it escape, but name the input
                    e.add_note(f"input: {what()}")
                    raise
                compare(plain(L, raw, what), exp, by_type, what)
                n += 1
    return n, M


def stream_nontrivial(M):
    shape = M.shape()
    ks_head = any(M.notes[i][4] is not None for i in M.joined)
    return shape, shape["joined"] >= 1 and (ks_head or shape["joined_overlap"] >= 2 or shape["orphan_heads"] + shape["orphan_tails"] > 0), ks_head


# ---------------------------------------------------------------------------------------------------------------
# hand-built grouped sequences


def split_problem(case):
    cols = case["cols"]
    beats = [F(b[0], b[1]) for b in case["beats"]]
    if any(a >= b for a, b in zip(beats, beats[1:])):
        return "row beats not increasing"
    taken = set()
    holds = {}
    for r, c, t, _ks, tr in case["items"]:
        if not (0 <= c < cols and 0 <= r < len(beats)) or (r, c) in taken:
            return "bad or duplicate position"
        taken.add((r, c))
        if tr is not None:
            if t not in MG.HEADS or not (r < tr < len(beats)):
                return "bad hold"
            holds.setdefault(c, []).append((r, tr))
    for c, hs in holds.items():
        hs.sort()
        if len({tr for _r, tr in hs}) != len(hs):
            return "two tails on one position"
        if any((tr, c) in taken for _r, tr in hs):
            return "a note on a hold's tail position"
    if case["items"] != sorted(case["items"], key=lambda x: (x[0], x[1])):
        return "sequence not position-sorted"
    return None


def check_split(L, case):
    why = split_problem(case)
    if why:
        return Verdict(excluded=why)
    p = case.get("player", 0)
    beats = [F(b[0], b[1]) for b in case["beats"]]
    items = []
    for r, c, t, ks, tr in case["items"]:
        if tr is None:
            items.append(("N", beats[r], c, t, p, ks))
        else:
            items.append(("W", beats[r], c, t, p, ks, beats[tr]))
    layout = case["layout"]
    groups = []
    for row in MG.rows_of(items):
        groups.extend(MG.split_row(row, layout))

    def real(it):
        if it[0] == "N":
            return L.Note(beat=L.Beat(it[1]), column=it[2], note_type=L.T[it[3]], player=it[4], keysound_index=it[5])
        return L.NoteWithTail(beat=L.Beat(it[1]), column=it[2], note_type=L.T[it[3]], tail_beat=L.Beat(it[6]), player=it[4], keysound_index=it[5])

    # a group is a Sequence of notes: lists in one case, tuples in the next
    seq = tuple if (len(items) + len(groups)) % 2 else list
    rgroups = [seq(real(it) for it in g) for g in groups]
    splitting = MG.splitting_notes(groups)
    # a note-with-tail whose head lies inside another one on its column: raising and passing it through (head and tail)
    # are unambiguous; what "dropping" it means for its own tail is not stated, so under that policy its tail may be
    # present or absent (everything else is still judged)
    inner_tails = {(it[6], it[2], it[4]) for it in items if it[0] == "W" and tuple(it[1:6]) in splitting}
    nested = bool(inner_tails)
    flat = MG.flat_notes(groups)
    by_type = layout == "by_type"
    if not by_type:
        flat = sorted(flat, key=MG.position)
    desc = "[" + ", ".join("(" + " ".join(f"{it[1]}:c{it[2]}:{it[3]}" + (f"[{it[5]}]" if it[5] is not None else "") + (f"->{it[6]}" if it[0] == "W" else "") for it in g) + ")" for g in groups) + "]"
    n = 0
    for pol in ("raise", "keep", "drop", None):

        def what(pol=pol):
            return f"ungroup_notes({desc}, orphaned_notes={pol or 'omitted'})"

        eff = pol or "raise"
        n += 1
        try:
            raw = list(L.ungroup_notes(rgroups, orphaned_notes=L.POL[pol])) if pol else list(L.ungroup_notes(rgroups))
        except L.Orphaned as e:
            need(eff == "raise" and splitting, lambda: f"{what()} raised OrphanedNoteException({e}); splitting notes per the model: {fmt(splitting)}")
            if e.args and isinstance(e.args[0], L.Note):
                a = e.args[0]
                named = (a.beat, a.column, a.note_type.value, a.player, a.keysound_index)
                need(named in splitting, lambda: f"{what()} raised about {named}, which does not lie inside a joined hold on its column; splitting notes: {fmt(splitting)}")
            continue
        need(not (eff == "raise" and splitting), lambda: f"{what()} did not raise although {fmt(splitting)} lie(s) inside a joined hold on the same column")
        exp = flat if eff != "drop" else [x for x in flat if x not in splitting]
        got = plain(L, raw, what)
        if nested and eff == "drop":
            exp = [x for x in exp if not (x[2] == MG.TAIL and (x[0], x[1], x[3]) in inner_tails)]
            got = [x for x in got if not (x[2] == MG.TAIL and (x[0], x[1], x[3]) in inner_tails)]
        compare(got, exp, by_type, what, tails_modulo_keysound=True)
    nholds = sum(1 for it in items if it[0] == "W")
    labs = ["layout:" + layout]
    if splitting:
        labs.append("splitting-note")
        if len(splitting) > 1:
            labs.append("splitting-notes>=2")
    if any(it[0] == "N" and any(h[0] == "W" and h[2] != it[2] and h[1] < it[1] < h[6] for h in items) for it in items):
        labs.append("note-inside-hold-on-other-column")
    if any(it[0] == "W" and it[5] is not None for it in items):
        labs.append("keysounded-hold")
    if nholds >= 2:
        labs.append("holds>=2")
    if nested:
        labs.append("nested-joined-holds")
    return Verdict(nontrivial=nholds >= 1 and (bool(splitting) or "keysounded-hold" in labs), labels=labs, evals=n)


# ---------------------------------------------------------------------------------------------------------------


def check(case):
    L = lib()
    kind = case["kind"]

    if kind == "grid":
        kinds = case["kinds"]
        evals = 0
        weight = 0
        for idx in range(case["lo"], case["hi"]):
            notes = MG.grid_stream(idx, case["rows"], case["cols"], kinds, MG.GRID_BEATS, GRID_KS)
            off = ((None,),) if idx % 2 else ((("drop", "drop"),),)
            n, M = roundtrip(L, notes, None, extra_off_pairs=off, with_default=False)
            evals += n
            if stream_nontrivial(M)[1]:
                weight += COMBOS
        return Verdict(nontrivial=weight > 0, evals=evals, weight=weight, labels=("grid-chunk",))

    if kind == "stream":
        why = stream_domain_problem(case)
        if not why and any(t == MG.TAIL and ks is not None for _b, _c, t, ks in case["notes"]):
            why = "tail with a keysound index"
        if why:
            return Verdict(excluded=why)
        notes = MG.notes_from_spec(case["notes"], case.get("player", 0))
        n, M = roundtrip(L, notes, case.get("include"))
        shape, nt, ks_head = stream_nontrivial(M)
        labs = []
        if shape["joined"]:
            labs.append("joined-hold")
        if ks_head:
            labs.append("keysounded-joined-head")
        if shape["joined_overlap"] >= 2:
            labs.append("joined-overlap>=2")
        if shape["joined_overlap"] >= 3:
            labs.append("joined-overlap>=3")
        if shape["orphan_heads"]:
            labs.append("orphan-head")
        if shape["orphan_tails"]:
            labs.append("orphan-tail")
        if shape["mixture"]:
            labs.append("same-beat-mixture")
        if case.get("player", 0):
            labs.append("player-1")
        labs.append("include:" + ("omitted" if case.get("include") is None else "given"))
        return Verdict(nontrivial=nt, labels=labs, evals=n)

    if kind == "split":
        return check_split(L, case)

    if kind == "corpus":
        per = corpus_streams(case["path"], case["chart"])
        n = 0
        nt = False
        labs = ["corpus"]
        for p in sorted(per):
            if any(x[2] == MG.TAIL and x[4] is not None for x in per[p]):
                return Verdict(excluded="corpus chart with a keysounded tail")
            k, M = roundtrip(L, per[p], case.get("include"))
            n += k
            shape, nt_p, _ = stream_nontrivial(M)
            nt = nt or nt_p
            if shape["joined"]:
                labs.append("corpus:joined-hold")
            if shape["orphan_heads"] + shape["orphan_tails"]:
                labs.append("corpus:orphans")
            if shape["joined_overlap"] >= 2:
                labs.append("corpus:joined-overlap>=2")
        return Verdict(nontrivial=nt, labels=sorted(set(labs)), evals=max(n, 1))

    raise Violation(f"unknown case kind {kind!r}")


# ---------------------------------------------------------------------------------------------------------------
# generators


def _grid_iter(rows, kinds, chunk):
    total = len(kinds) ** (rows * 2)

    def it(shard, nshards):
        for lo, hi in MG.grid_chunks(total, chunk, shard, nshards):
            yield {"kind": "grid", "rows": rows, "cols": 2, "kinds": kinds, "lo": lo, "hi": hi}

    return it


@st.composite
def s_stream(draw):
    s = draw(MG.streams(tail_keysounds=False))
    s["kind"] = "stream"
    s["include"] = draw(MG.INCLUDES)
    return s


SPLIT_CELLS = ["0", "0", "0", "h", "h", "h", "1", "1", "M", "L", "F", "K", "A", "2", "3", "4"]


@st.composite
def s_split(draw):
    cols = draw(st.integers(1, 4))
    nrows = draw(st.integers(2, 10))
    deltas = draw(st.lists(st.sampled_from(MG.DELTAS), min_size=nrows, max_size=nrows))
    b = draw(st.sampled_from(MG.STARTS))
    beats = []
    for d in deltas:
        beats.append([b.numerator, b.denominator])
        b = b + d
    items = []
    for c in range(cols):
        cells = draw(st.lists(st.sampled_from(SPLIT_CELLS), min_size=nrows, max_size=nrows))
        nest = draw(st.integers(0, 4)) == 0  # this column may carry a hold that starts inside another one
        r = 0
        blocked = -1  # last tail row of the holds laid down on this column
        tailrows = set()
        while r < nrows:
            t = cells[r]
            if r in tailrows:
                r += 1
                continue
            free = [x for x in range(r + 1, nrows) if x not in tailrows]
            if t == "h" and (r > blocked or nest) and free:
                tr = draw(st.sampled_from(free))
                ks = draw(MG.KEYSOUND)
                items.append([r, c, draw(st.sampled_from(["2", "2", "4"])), ks, tr])
                blocked = max(blocked, tr)
                tailrows.add(tr)
            elif t not in ("0", "h"):
                items.append([r, c, t, draw(MG.KEYSOUND), None])
            r += 1
    items.sort(key=lambda x: (x[0], x[1]))
    return {
        "kind": "split",
        "cols": cols,
        "player": draw(st.sampled_from([0, 0, 0, 1])),
        "beats": beats,
        "items": items,
        "layout": draw(st.sampled_from(["separate", "separate", "all", "by_type"])),
    }


def corpus_cases():
    from .. import gen_notes as N

    return [{"kind": "corpus", "path": rel, "chart": i, "include": inc} for inc in CORPUS_INCLUDES for rel, i in N.corpus_charts()]


def long_hold_cases():
    """a hold or roll kept open while a thousand and more other notes go by (a freeze held through a whole stream), with a
    second, short hold inside it; everything that has to be buffered until the long one closes comes out afterwards"""
    out = []
    for n, head in ((1100, "2"), (1500, "4"), (3200, "2")):
        notes = [[[0, 1], 0, head, None]]
        for i in range(1, n + 1):
            t = "1" if i % 7 else "M"
            notes.append([[i, 4], 1 + i % 3, t, (i % 10 if i % 11 == 0 else None)])
        notes[5] = [[5, 4], 1 + 5 % 3, "2", None]
        notes[9] = [[9, 4], 1 + 5 % 3, "3", None]
        notes.append([[n + 1, 4], 0, "3", None])
        notes.append([[n + 2, 4], 2, "1", None])
        out.append({"kind": "stream", "cols": 4, "notes": notes, "include": None})
    return out


def parts(tier):
    q = tier == "quick"
    out = [
        {"name": "corpus", "kind": "fixed", "cases": corpus_cases},
        {"name": "long-holds", "kind": "fixed", "cases": long_hold_cases},
        {"name": "grid-2x3", "kind": "enum", "iter": _grid_iter(3, "0123M" if q else "0123M4", 125 if q else 216), "exhaustive": True},
    ]
    if not q:
        out.append({"name": "grid-2x4", "kind": "enum", "iter": _grid_iter(4, "0123M", 625), "exhaustive": True})
    out += [
        {"name": "streams", "kind": "hypothesis", "strategy": s_stream, "examples": 5000 if q else 16 * 8000},
        {"name": "hand-built", "kind": "hypothesis", "strategy": s_split, "examples": 4000 if q else 16 * 6000},
    ]
    return out
