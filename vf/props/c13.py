"""
C13 - Hittability and note timing follow the warp rules exactly.

Oracle: vf.model_timing.Model.unhittable / .time, and the note grid model of vf.gen_notes.
"""
from fractions import Fraction as F

from hypothesis import strategies as st

from .. import gen_notes as N
from .. import gen_timing as G
from ..core import Verdict, Violation
from ..model_timing import TICK, Model, simfile_text, timing_data
from .c11 import build_engine, frac_beat, in_domain, load_corpus_case

ID = "C13"
LEVEL = "exploration"
TOL = 1e-9
RULE = (
    "timelines as for C11 (complete placements of up to 4 (quick: 3) events on a 6-point beat grid, Hypothesis timelines "
    "with coinciding anchors, corpus). hittable() is asked on every tick from beat -1 to 2 beats past the last event "
    "(short timelines) or on the 3 ticks either side of every event beat and warp end (long ones); time_notes is run "
    "with all three UnhittableNotes options over note data that places notes of every type, with players 0..2 and "
    "keysound indices, on purpose on warp starts / inside warps / on warp ends / on pauses inside warps, and over every "
    "corpus chart. Each hittable() query and each timed note is one evaluation. Non-trivial = at least one unhittable "
    "note (strong label: an unhittable tap with player != 0 or a keysound index); distinct = distinct case JSON"
)
RULE += " " + "Added after the seeding rounds: the same source kinds, version / number spellings and absent offsets as C11; part 'unaligned-warp-lengths': warp lengths that are not whole ticks (down to 0.001 beat), every tick judged except the one the exact and the tick-rounded end disagree about, exact half-tick ties avoided."
RULE += " " + 'Round 6: the same tiny pauses and near-equal tempo changes as C11; after the main pass the same notes are timed under two timing data that differ only in the offset (-1 s and -2 s): every time shifts by exactly 1 s.'
RULE += " " + 'Round 7: as C11; on every third tick time_at(b) is asked right before hittable(b).'
ASSUMPTIONS = [
    "exact rational model in vf/model_timing.py; note grid model in vf/gen_notes.py",
    "the input order of notes is the order of the note data text",
]


def need(c, msg):
    if not c:
        raise Violation(msg)


def check_unaligned(case):
    """warps whose length is not a whole number of ticks (three-decimal lengths as simfiles carry them, down to a
    hundredth of a beat).  Whether the one tick that the exact end and the tick-rounded end disagree about is hittable
    is not claimed; every other tick is the same under both readings: start (included) up to the last whole tick
    before the end is unhittable when at least one whole tick fits, everything from the first whole tick at or after
    the end is hittable again, and so is everything before the start."""
    from decimal import Decimal as D
    from math import ceil, floor

    from simfile.ssc import SSCSimfile
    from simfile.sm import SMSimfile
    from simfile.timing import TimingData
    from simfile.timing.engine import TimingEngine

    warps = [(k, D(v)) for k, v in case["warps"]]
    wtext = ",".join(f"{k / 48:.3f}={v}" for k, v in case["warps"])
    body = f"#OFFSET:0;\n#BPMS:0.000={case['bpm']};\n#STOPS:{case['stops']};\n#DELAYS:;\n#WARPS:{wtext};\n"
    sim = SMSimfile(string=body) if case.get("sm") else SSCSimfile(string="#VERSION:0.83;\n" + body)
    eng = TimingEngine(TimingData(sim))
    ctx = f"; BPMS 0.000={case['bpm']}, STOPS {case['stops']!r}, WARPS {wtext!r}"
    stop_ticks = {round(F(D(x.split("=")[0])) * 48) for x in case["stops"].split(",") if x}
    sure_in, unclaimed = set(), set()
    for k, v in warps:
        exact = F(v) * 48
        lo, hi = floor(exact), ceil(exact)
        sure_in.update(range(k, k + lo))
        if lo != hi:
            unclaimed.add(k + lo)
    last = max(k + ceil(F(v) * 48) for k, v in warps)
    evals = 0
    for t in range(-4, last + 60):
        if t in unclaimed:
            continue
        exp = not (t in sure_in and t not in stop_ticks)
        got = eng.hittable(frac_beat(F(t, 48)))
        evals += 1
        need(got == exp, f"hittable({F(t, 48)}) = {got}, expected {exp} (warp lengths that are not whole ticks){ctx}")
    labels = ["unaligned-warp-length"]
    if any(F(v) * 48 < F(1, 2) for _k, v in warps):
        labels.append("warp-shorter-than-half-a-tick")
    if any(F(v) * 48 < 1 for _k, v in warps):
        labels.append("warp-shorter-than-a-tick")
    return Verdict(nontrivial=True, labels=labels, evals=evals)


def check(case):
    if case.get("kind") == "unaligned":
        return check_unaligned(case)
    from simfile.notes import Note, NoteData, NoteType
    from simfile.notes.timed import TimedNote, UnhittableNotes, time_notes
    from simfile.ssc import SSCSimfile
    from simfile.timing import TimingData

    corpus = case.get("kind") == "corpus"
    if corpus:
        import simfile

        tl = load_corpus_case(case)
        if not in_domain(tl):
            return Verdict(excluded="corpus timing data outside the domain")
        sf = simfile.open(G.corpus_path(case["path"]))
        chart = sf.charts[case["chart"]]
        td = TimingData(sf, chart)
        nd = NoteData(chart)
        exp_notes = None
    else:
        tl = case["tl"]
        td = timing_data(tl)
        if case.get("grid") is not None:
            grid = case["grid"]
        else:
            grid = N.grid_from_ticks([tuple(n) for n in case["notes"]], case["cols"], nplayers=case["nplayers"])
        text = N.render(grid)
        nd = NoteData(text)
        exp_notes = N.expected_notes(grid)
    m = Model(tl)
    eng = build_engine(tl)
    ctx = f"; timeline {tl}"
    evals = 0

    # hittability on the tick grid
    evb = sorted(m.event_beats() | {F(0)})
    last = evb[-1]
    if last <= 14:
        ticks = range(-48, int((last + 2) * 48) + 1)
    else:
        s = set()
        for b in evb:
            k = int(b * 48)
            s.update(range(k - 3, k + 4))
        ticks = sorted(s)
    n_unhit = 0
    for k in ticks:
        b = F(k, 48)
        if k % 3 == 0:
            eng.time_at(frac_beat(b))  # asking for the time of a beat first must not change whether it is hittable
        got = eng.hittable(frac_beat(b))
        exp = not m.unhittable(b)
        evals += 1
        n_unhit += not exp
        need(got is exp or got == exp, f"hittable({b}) = {got}, expected {exp}{ctx}")

    for k in reversed(list(ticks)[:: max(1, len(list(ticks)) // 60)]):
        b = F(k, 48)
        need(eng.hittable(frac_beat(b)) == (not m.unhittable(b)), f"hittable({b}) changes when asked again in reverse order{ctx}")

    # beats that are not tick-aligned (notes of 5-, 7-, 10-row measures ...): just beside every event beat, and every note
    off = set()
    for b in evb:
        off.update((b + F(1, 240), b - F(1, 240), b + F(1, 100), b + F(1, 49), b + F(47, 48 * 49)))
    if exp_notes is not None:
        off.update(b for _p, b, _c, _t, _k in exp_notes)
    for b in sorted(off):
        evals += 1
        got = eng.hittable(frac_beat(b))
        need(got == (not m.unhittable(b)), f"hittable({b}) = {got}, expected {not m.unhittable(b)} (beat not on the tick grid){ctx}")

    # note timing
    src = list(nd)
    if exp_notes is not None:
        need(len(src) == len(exp_notes), f"note data decoded to {len(src)} notes, expected {len(exp_notes)}")
    labels = set()
    unhit_notes = 0
    passes = [(m, td, ctx)]
    if not corpus:
        # time_notes again on the same TimingData object after equal-length in-place edits: must answer for the edited data
        from .c11 import edit_in_place

        td_b = timing_data(tl)
        list(time_notes(nd, td_b, UnhittableNotes["DROP_NOTE"]))
        tl_b = edit_in_place(tl, td_b, "replace")
        passes.append((Model(tl_b), td_b, f"; TimingData object edited in place to {tl_b} after a first time_notes call, originally {tl}"))
    for m, td, ctx in passes:
      for opt_name in ("KEEP_NOTE", "DROP_NOTE", "TAP_TO_FAKE"):
          opt = UnhittableNotes[opt_name]
          out = list(time_notes(nd, td, opt))
          expected = []
          for i, n in enumerate(src):
              if exp_notes is not None:
                  p, b, c, t, ks = exp_notes[i]
              else:
                  p, b, c, t, ks = n.player, F(n.beat), n.column, n.note_type.value, n.keysound_index
              un = m.unhittable(b)
              if not un or opt_name == "KEEP_NOTE":
                  expected.append((p, b, c, t, ks, i))
              elif opt_name == "TAP_TO_FAKE" and t == "1":
                  expected.append((p, b, c, "F", ks, i))
              if un and opt_name == "KEEP_NOTE":
                  unhit_notes += 1
                  labels.add("unhittable-note")
                  if t == "1" and (p != 0 or ks is not None):
                      labels.add("unhittable-tap-with-player-or-keysound")
                  if t != "1":
                      labels.add("unhittable-non-tap")
          need(
              len(out) == len(expected),
              f"time_notes({opt_name}) yielded {len(out)} notes, expected {len(expected)}{ctx}; notes {case.get('notes')}",
          )
          for tn, (p, b, c, t, ks, i) in zip(out, expected):
              evals += 1
              need(isinstance(tn, TimedNote) and isinstance(tn.note, Note), f"time_notes yielded {tn!r}")
              n = tn.note
              got = (n.player, F(n.beat), n.column, n.note_type.value, n.keysound_index)
              need(
                  got == (p, b, c, t, ks),
                  f"time_notes({opt_name}) note #{i}: got (player, beat, column, type, keysound) = {got}, expected {(p, b, c, t, ks)}{ctx}",
              )
              if t != "F" or exp_notes is None or exp_notes[i][3] == "F":
                  pass
              et = float(m.time(b, 5))
              need(abs(float(tn.time) - et) <= TOL, f"time_notes({opt_name}) note #{i} at beat {b}: time {float(tn.time)!r}, exact {et!r}{ctx}")
    m = passes[0][0]
    labels |= {l for l in m.coincidences() if "warp" in l}
    # two timing data that differ in nothing but the offset (-1 and -2 seconds; Python hashes -1 and -2 alike, so anything
    # keyed on a hash of the values confuses them), timed one after the other in this process: every time shifts by 1 s
    if not corpus and src:
        import copy

        res = []
        for off in ("-1", "-2"):
            tl_o = copy.deepcopy(tl)
            tl_o["offset"] = off
            res.append([t for t in time_notes(nd, timing_data(tl_o), UnhittableNotes["KEEP_NOTE"])])
        for a, b in zip(res[0], res[1]):
            evals += 1
            need(abs((b.time - a.time) - 1.0) <= 1e-9, f"note at beat {a.note.beat}: time {a.time!r} with offset -1, {b.time!r} with offset -2 (expected exactly 1 s more); timeline {tl}")
    return Verdict(nontrivial=unhit_notes > 0, labels=sorted(labels), evals=evals)


# -------------------------------------------------------------------------------------------------


def interesting_ticks(tl):
    """ticks on and around warp starts/ends, pauses, plus inside warps"""
    s = set()
    for k, l in tl["warps"]:
        s.update((k, k + 1, k + l - 1, k + l, k - 1, k + l // 2))
    for name in ("stops", "delays", "bpms"):
        for k, _ in tl[name]:
            s.update((k, k + 1))
    return sorted(x for x in s if 0 <= x <= 420 * 48)


@st.composite
def s_case(draw):
    tl = draw(G.timelines(span=draw(st.sampled_from([6 * 48, 12 * 48, 24 * 48]))))
    cols = draw(st.sampled_from([1, 4, 4, 6, 8]))
    nplayers = draw(st.sampled_from([1, 1, 2, 3]))
    pool = interesting_ticks(tl)
    tick = st.one_of(st.sampled_from(pool), st.integers(0, 26 * 48)) if pool else st.integers(0, 26 * 48)
    raw = draw(
        st.lists(
            st.tuples(tick, st.integers(0, cols - 1), st.sampled_from("1111234AFKLM"), st.integers(0, nplayers - 1),
                      st.one_of(st.none(), st.integers(0, 99))),
            max_size=14,
            unique_by=lambda n: (n[0], n[1], n[3]),
        )
    )
    notes = sorted(([k, c, t, p, ks] for k, c, t, p, ks in raw), key=lambda n: (n[3], n[0], n[1]))
    if nplayers >= 2 and draw(st.integers(0, 2)) == 0:
        # routine chart: the next player's first note sits on the very beat of the previous player's last note, and a
        # stop (or delay) sits on that beat
        for p in range(nplayers - 1):
            mine = [n for n in notes if n[3] == p]
            if not mine:
                continue
            k = mine[-1][0]
            notes = [n for n in notes if not (n[3] == p + 1 and n[0] <= k)]
            notes.append([k, draw(st.integers(0, cols - 1)), "1", p + 1, None])
            kind = draw(st.sampled_from(["stops", "delays"]))
            if k not in [x for x, _ in tl[kind]]:
                tl[kind] = sorted(tl[kind] + [[k, "0.75"]])
        notes.sort(key=lambda n: (n[3], n[0], n[1]))
    return {"tl": tl, "cols": cols, "nplayers": nplayers, "notes": notes}


@st.composite
def s_offtick(draw):
    """a note on a beat that is not tick-aligned (odd row count), inside a warp, with a stop/delay on the tick just below
    (or above) it: the pause does not sit on the note's beat, so the note stays unhittable"""
    R = draw(st.sampled_from([5, 7, 9, 10, 11, 13, 14, 15, 20, 25, 36, 100]))
    mi = draw(st.integers(0, 2))
    rows = [r for r in range(1, R) if (F(4 * r, R) * 48).denominator != 1]
    r = draw(st.sampled_from(rows))
    beta = 4 * mi + F(4 * r, R)
    t = int(beta * 48)  # tick just below the note
    a = draw(st.integers(0, min(24, t)))
    b = draw(st.integers(1, 30))
    warps = [[t - a, a + b]]
    pause_at = draw(st.sampled_from([[t], [t + 1], [t, t + 1], []]))
    kind = draw(st.sampled_from(["stops", "delays", "both"]))
    stops = [[k, "0.25"] for k in pause_at] if kind in ("stops", "both") else []
    delays = [[k, "0.125"] for k in pause_at] if kind in ("delays", "both") else []
    bpms = [[0, draw(st.sampled_from(["120", "60", "133.333"]))]]
    if draw(st.booleans()):
        bpms.append([draw(st.integers(1, max(1, t))), "240"])
        bpms = sorted({k: v for k, v in bpms}.items())
        bpms = [[k, v] for k, v in bpms]
    tl = {"bpms": bpms, "stops": stops, "delays": delays, "warps": warps, "offset": draw(st.sampled_from(["0", "-0.009", "1.5"])),
          "source": draw(st.sampled_from(["ssc", "ssc", "sm", "sm-freezes", "ssc-chart", "sm-stale-freezes", "sm-stale-freezes-first"]))}
    cols = 4
    nplayers = draw(st.sampled_from([1, 2]))
    players = []
    for p in range(nplayers):
        ms = []
        for m_ in range(mi + 2):
            if m_ == mi:
                cells = [[r, draw(st.integers(0, 3)), draw(st.sampled_from("1112M4")), draw(st.one_of(st.none(), st.integers(0, 9)))]]
                if draw(st.booleans()):
                    cells.append([0, 0, "1", None])
                if r + 1 < R and draw(st.booleans()):
                    cells.append([r + 1, 1, "1", None])
                ms.append({"rows": R, "cells": cells})
            else:
                ms.append({"rows": 4, "cells": [[draw(st.integers(0, 3)), 2, "1", None]]})
        players.append(ms)
    return {"tl": tl, "cols": cols, "nplayers": nplayers, "notes": None, "grid": {"cols": cols, "players": players, "deco": None}}


@st.composite
def s_unaligned(draw):
    n = draw(st.sampled_from([1, 1, 2, 3]))
    warps = []
    k = draw(st.integers(0, 96))
    for _ in range(n):
        mode = draw(st.integers(0, 3))
        if mode == 0:
            thousandths = draw(st.integers(1, 20))  # shorter than a tick (1/48 = 0.0208)
        elif mode == 1:
            thousandths = draw(st.integers(1, 400))
        else:
            thousandths = draw(st.integers(1, 4000))
        ticks = F(thousandths, 1000) * 48
        # keep clear of exact half ticks (ties of the rounding are not claimed) - with three decimals: x.5 ticks
        if (ticks * 2).denominator == 1 and ticks.denominator != 1:
            thousandths += 1
        warps.append([k, f"{thousandths // 1000}.{thousandths % 1000:03d}"])
        k += int(F(thousandths, 1000) * 48) + draw(st.integers(3, 60))  # next warp well clear of this one's end
    stops = ""
    if draw(st.booleans()):
        sk = draw(st.sampled_from([w[0] for w in warps] + [warps[0][0] + 1, warps[-1][0] + 2]))
        stops = f"{sk / 48:.3f}=0.250"
    return {"kind": "unaligned", "warps": warps, "stops": stops, "bpm": draw(st.sampled_from(["120", "60", "173.2", "240"])), "sm": draw(st.integers(0, 3)) == 0}


def _place_iter(max_events):
    def it(shard, nshards):
        for i, tl in enumerate(G.placements_iter(max_events, shard, nshards)):
            # a routine, keysounded chart with a note of rotating type on every half beat and a few ticks beside
            notes = []
            types = "12341LMFK"
            for j, k in enumerate(range(0, 192, 24)):
                notes.append([k, j % 4, types[(i + j) % len(types)], 0, (j if j % 3 == 0 else None)])
                notes.append([k, (j + 1) % 4, "1", 1, (7 if j % 2 else None)])
            notes.append([25, 3, "1", 0, None])
            notes.append([71, 2, "1", 1, 3])
            notes.sort(key=lambda n: (n[3], n[0], n[1]))
            yield {"tl": tl, "cols": 4, "nplayers": 2, "notes": notes}

    return it


def corpus_cases():
    return [{"kind": "corpus", "path": rel, "chart": i} for rel, i in N.corpus_charts()]


def parts(tier):
    q = tier == "quick"
    return [
        {"name": "corpus", "kind": "fixed", "cases": corpus_cases},
        {"name": "placements", "kind": "enum", "iter": _place_iter(3 if q else 4), "exhaustive": True},
        {"name": "random", "kind": "hypothesis", "strategy": s_case, "examples": 1500 if q else 16 * 8000},
        {"name": "off-tick-notes", "kind": "hypothesis", "strategy": s_offtick, "examples": 600 if q else 16 * 3000},
        {"name": "unaligned-warp-lengths", "kind": "hypothesis", "strategy": s_unaligned, "examples": 600 if q else 16 * 3000},
    ]
