"""
C09 - Grouping and counting notes follow the documented rules for every stream.

Oracle: the two-pass reference model in vf/model_group.py (pass 1 decides, per column, the fate of every head and
tail of the included types; pass 2 emits in stream order; rows are runs of equal beats split per same-beat mode).
The implementation is a one-pass streaming buffer; nothing of it is reused here.
"""
from fractions import Fraction as F

from hypothesis import strategies as st

from .. import model_group as MG
from ..core import Verdict, Violation

ID = "C09"
LEVEL = "exploration"
RULE = (
    "grid part (exhaustive): every stream on 2 columns x 4 rows (quick: 2 x 3) with each cell one of {empty, tap, hold "
    "head, tail, mine}, enumerated in chunks; each stream is evaluated under all 30 option combinations (3 same-beat "
    "modes x [join off | join on x 3 orphaned_head x 3 orphaned_tail]; with join off the - ignored - orphan options "
    "rotate through all 9 pairs) plus count_steps(same_beat_minimum 1..4)/jumps/hands/mines and count_holds/count_rolls "
    "under the 9 policy pairs and with the defaults; evaluations = stream x combination and stream x count call; a "
    "stream is non-trivial when it has >= 1 head and (an orphan, or >= 2 holds open at once, or a beat mixing note "
    "types) and then counts 30 distinct items. Random part (Hypothesis): position-sorted single-player streams over "
    "1..6 columns x 1..12 rows with beats of arbitrary denominators, all nine note types, keysound indices, drawn from "
    "cell alphabets biased to heads/tails, x include_note_types (omitted, counting defaults, {2,3}, {4,3}, random "
    "subsets), each under 3 modes x [join on x 9 policy pairs | join off x 3 of the 9 (ignored) pairs, all 9 over the modes], the all-defaults calls, count_grouped_notes with "
    "same_beat_minimum 1..4 on every result and every count_* function; same non-trivial rule on the included notes; "
    "distinct = distinct case JSON. Fixed part: every chart of every corpus simfile (per player) x 5 include sets x 30 "
    "combinations + counts"
)
RULE += " " + "Added after the seeding rounds: the stream is handed over as list, one-shot iterator, generator and NoteData object in rotation; include_note_types is the caller's own object (plain set or frozenset), the same object for every call on a stream, and must come back unchanged."
RULE += " " + "Round 6: part 'long-holds' - a hold or roll kept open while 1100 / 1500 / 3200 other notes go by, with a short hold inside it."
ASSUMPTIONS = [
    "reference model vf/model_group.py (two passes, written from the documentation and the property statement)",
    "streams have unique (beat, column) positions, as every stream read from note data has",
    "the note an OrphanedNoteException carries is compared with the model's orphans only when it is a Note",
]

GRID_KINDS = "0123M"
GRID_COLS = 2
COMBOS = 30
CORPUS_INCLUDES = [None, MG.COUNT_DEFAULT, "23", "43", "234"]


def need(c, msg):
    if not c:
        raise Violation(msg() if callable(msg) else msg)


class _Lib:
    def __init__(self):
        from simfile.notes import Note, NoteType
        from simfile.notes import count as C
        from simfile.notes import group as G
        from simfile.timing import Beat

        self.Note, self.Beat, self.NoteWithTail = Note, Beat, G.NoteWithTail
        self.T = {t.value: t for t in NoteType}
        self.MODE = {
            "separate": G.SameBeatNotes.KEEP_SEPARATE,
            "by_type": G.SameBeatNotes.JOIN_BY_NOTE_TYPE,
            "all": G.SameBeatNotes.JOIN_ALL,
        }
        self.POL = {
            "raise": G.OrphanedNotes.RAISE_EXCEPTION,
            "keep": G.OrphanedNotes.KEEP_ORPHAN,
            "drop": G.OrphanedNotes.DROP_ORPHAN,
        }
        self.group_notes, self.ungroup_notes, self.Orphaned = G.group_notes, G.ungroup_notes, G.OrphanedNoteException
        self.C = C


_LIB = None


def lib():
    global _LIB
    if _LIB is None:
        _LIB = _Lib()
    return _LIB


class _Stream(list):
    """the stream as a list, plus (lazily) the same notes as a NoteData object"""

    nd = None


def real_notes(L, notes):
    return _Stream(L.Note(beat=L.Beat(n[0]), column=n[1], note_type=L.T[n[2]], player=n[3], keysound_index=n[4]) for n in notes)


def as_form(rnotes, fi):
    """the same note stream handed over in another shape: every documented input is an Iterable[Note], so a list, a
    one-shot iterator, a generator and a NoteData object must all be treated alike (fi: 0 list, 1 iterator, 2 NoteData,
    3 generator)"""
    fi %= 4
    if fi == 0 or not isinstance(rnotes, _Stream):
        return rnotes
    if fi == 1:
        return iter(rnotes)
    if fi == 3:
        return (n for n in rnotes)
    if rnotes.nd is None:
        from simfile.notes import NoteData

        cols = max([n.column for n in rnotes] + [0]) + 1
        rnotes.nd = NoteData.from_notes(list(rnotes), cols)
    return rnotes.nd


def show(notes, limit=40):
    s = " ".join(f"{n[0]}:c{n[1]}:{n[2]}" + (f"[{n[4]}]" if n[4] is not None else "") for n in notes[:limit])
    return "<" + s + (" ..." if len(notes) > limit else "") + ">" + (f" player {notes[0][3]}" if notes and notes[0][3] else "")


def show_groups(groups, limit=12):
    def one(it):
        s = f"{F(it[1])}:c{it[2]}:{it[3]}" + (f"[{it[5]}]" if it[5] is not None else "")
        return s + (f"->{F(it[6])}" if it[0] == "W" else "")

    return "[" + ", ".join("(" + " ".join(one(it) for it in g) + ")" for g in groups[:limit]) + (", ..." if len(groups) > limit else "") + f"] ({len(groups)} groups)"


def conv(L, groups):
    out = []
    for g in groups:
        row = []
        for n in g:
            if isinstance(n, L.Note):
                row.append(("N", n.beat, n.column, n.note_type.value, n.player, n.keysound_index))
            elif isinstance(n, L.NoteWithTail):
                row.append(("W", n.beat, n.column, n.note_type.value, n.player, n.keysound_index, n.tail_beat))
            else:
                raise Violation(f"group_notes emitted an element of type {type(n).__name__}: {n!r}")
        out.append(tuple(row))
    return out


def first_diff(got, exp):
    for i, (a, b) in enumerate(zip(got, exp)):
        if a != b:
            return i
    return min(len(got), len(exp))


_POLS = ("raise", "keep", "drop")
FORM_NAMES = ("", " as a one-shot iterator", " as a NoteData object", " as a generator")


def eval_group(L, M, rnotes, include, mode, join, oh, ot, pass_policies=True, pass_mode=True, inc_obj=None):
    """one evaluation of group_notes against the model; returns number of oracle evaluations"""
    kw = {}
    if include is not None:
        kw["include_note_types"] = inc_obj if inc_obj is not None else frozenset(L.T[c] for c in include)
    if pass_mode:
        kw["same_beat_notes"] = L.MODE[mode]
    if join:
        kw["join_heads_to_tails"] = True
    if pass_policies:
        kw["orphaned_head"] = L.POL[oh]
        kw["orphaned_tail"] = L.POL[ot]
    exp_kind, exp = M.groups(mode, join, oh, ot)
    fi = MG.MODES.index(mode) + 2 * bool(join) + _POLS.index(oh) + 3 * _POLS.index(ot) + (0 if pass_policies else 1)

    def opts():
        return (f"stream passed{FORM_NAMES[fi % 4]}, " if fi % 4 and isinstance(rnotes, _Stream) else "") + f"include={'all (omitted)' if include is None else include!r} same_beat={mode} join={join} orphaned_head={oh} orphaned_tail={ot}" + ("" if pass_policies else " (policies omitted)")

    try:
        raw = list(L.group_notes(as_form(rnotes, fi), **kw))
    except L.Orphaned as e:
        if exp_kind != "raise":
            raise Violation(f"group_notes on {show(M.notes)} with {opts()} raised OrphanedNoteException({e}) but no orphan falls under a RAISE policy; expected {show_groups(exp)}")
        if e.args and isinstance(e.args[0], L.Note):
            n = e.args[0]
            named = (n.beat, n.column, n.note_type.value, n.player, n.keysound_index)
            if named not in exp:
                raise Violation(f"group_notes on {show(M.notes)} with {opts()} raised about {named}, which is not one of the orphans under a RAISE policy {exp}")
        return 1
    except Exception as e:  # not documented: let it escape (the runner classifies it), but name the input
        e.add_note(f"input: group_notes on {show(M.notes)} with {opts()}")
        raise
    if exp_kind != "ok":
        raise Violation(f"group_notes on {show(M.notes)} with {opts()} did not raise; expected OrphanedNoteException about one of {exp}; got {len(raw)} groups")
    got = conv(L, raw)
    if got != exp:
        i = first_diff(got, exp)
        raise Violation(
            f"group_notes on {show(M.notes)} with {opts()}: got {show_groups(got)}, expected {show_groups(exp)}; first difference at group {i}: "
            f"got {got[i] if i < len(got) else None}, expected {exp[i] if i < len(exp) else None}"
        )
    for k in (1, 2, 3, 4):
        c = L.C.count_grouped_notes(raw, same_beat_minimum=k)
        e_ = MG.count_groups(exp, k)
        if c != e_:
            raise Violation(f"count_grouped_notes(groups of {show(M.notes)} [{opts()}], same_beat_minimum={k}) = {c}, expected {e_}")
    if L.C.count_grouped_notes(iter(raw)) != len(exp):
        raise Violation(f"count_grouped_notes with the default minimum on {show(M.notes)} [{opts()}] != {len(exp)}")
    return 1


def eval_counts(L, notes, rnotes, head_pairs=MG.POLICY_PAIRS):
    """count_steps / jumps / hands / mines / holds / rolls under the documented defaults"""
    C = L.C
    n = 0
    _, dgroups = MG.Model(notes, MG.COUNT_DEFAULT).groups("all", False)
    for k in (1, 2, 3, 4):
        got, exp = C.count_steps(as_form(rnotes, k), same_beat_minimum=k), MG.count_groups(dgroups, k)
        if got != exp:
            raise Violation(f"count_steps({show(notes)}, same_beat_minimum={k}) = {got}, expected {exp}")
    for name, fn, k in (("count_steps", C.count_steps, 1), ("count_jumps", C.count_jumps, 2), ("count_hands", C.count_hands, 3)):
        for fi in (0, 2, k):
            got, exp = fn(as_form(rnotes, fi)), MG.count_groups(dgroups, k)
            if got != exp:
                raise Violation(f"{name}({show(notes)}{FORM_NAMES[fi % 4]}) = {got}, expected {exp} (beats carrying >= {k} of tap/hold head/roll head/lift)")
    for fi in (0, 1, 2):
        got, exp = C.count_mines(as_form(rnotes, fi)), MG.count_mines(notes)
        if got != exp:
            break
    if got != exp:
        raise Violation(f"count_mines({show(notes)}) = {got}, expected {exp}")
    n += 8
    for name, fn, head in (("count_holds", C.count_holds, "2"), ("count_rolls", C.count_rolls, "4")):
        for pair in list(head_pairs) + [None]:
            oh, ot = pair if pair else ("raise", "raise")
            kw = {"orphaned_head": L.POL[oh], "orphaned_tail": L.POL[ot]} if pair else {}
            kind, exp = MG.count_heads(notes, head, oh, ot)

            def what():
                return f"{name}({show(notes)}, " + (f"orphaned_head={oh}, orphaned_tail={ot})" if pair else "defaults)")

            n += 1
            try:
                got = fn(as_form(rnotes, n), **kw)
            except L.Orphaned as e:
                if kind != "raise":
                    raise Violation(f"{what()} raised OrphanedNoteException({e}), expected {exp}")
                continue
            if kind != "ok":
                raise Violation(f"{what()} = {got}, expected OrphanedNoteException about one of {exp}")
            if got != exp:
                raise Violation(f"{what()} = {got}, expected {exp}")
    return n


def nontrivial(shape):
    return shape["heads"] >= 1 and (shape["orphan_heads"] + shape["orphan_tails"] > 0 or shape["max_open"] >= 2 or shape["mixture"])


def labels_of(shape):
    labs = []
    if shape["joined"]:
        labs.append("joined-hold")
    if shape["orphan_tails"]:
        labs.append("orphan-tail")
    for w in sorted(shape["interrupters"]):
        labs.append("orphan-head:" + w)
    if shape["max_open"] >= 2:
        labs.append("open>=2")
    if shape["max_open"] >= 3:
        labs.append("open>=3")
    if shape["joined_overlap"] >= 2:
        labs.append("joined-overlap>=2")
    if shape["joined_overlap"] >= 3:
        labs.append("joined-overlap>=3")
    if shape["mixture"]:
        labs.append("same-beat-mixture")
    return labs


def full_stream_check(L, notes, include, count_too=True):
    """all modes x join off/on x 9 policy pairs (+ defaults) for one stream and one include set"""
    rnotes = real_notes(L, notes)
    M = MG.Model(notes, include if include is not None else MG.ALL_TYPES)
    n = 0
    # the include set is the caller's object: a plain set (as in the documentation's examples) or a frozenset, the very
    # same object handed to every call of this stream - it must come back unchanged
    io = None
    if include is not None:
        members = [L.T[c] for c in include]
        io = set(members) if (len(include) + len(notes)) % 2 else frozenset(members)
    for mi, mode in enumerate(MG.MODES):
        for oh, ot in MG.POLICY_PAIRS[3 * mi : 3 * mi + 3]:  # ignored when joining is off; all 9 pairs over the 3 modes
            n += eval_group(L, M, rnotes, include, mode, False, oh, ot, inc_obj=io)
        for oh, ot in MG.POLICY_PAIRS:
            n += eval_group(L, M, rnotes, include, mode, True, oh, ot, inc_obj=io)
        n += eval_group(L, M, rnotes, include, mode, False, "raise", "raise", pass_policies=False, inc_obj=io)
        n += eval_group(L, M, rnotes, include, mode, True, "raise", "raise", pass_policies=False, inc_obj=io)
    n += eval_group(L, M, rnotes, include, "separate", False, "raise", "raise", pass_policies=False, pass_mode=False, inc_obj=io)
    n += eval_group(L, M, rnotes, include, "separate", True, "raise", "raise", pass_policies=False, pass_mode=False, inc_obj=io)
    if io is not None:
        need(set(io) == {L.T[c] for c in include}, lambda: f"group_notes changed the caller's include_note_types object: now {sorted(t.value for t in io)}, passed {include!r}")
    # count_steps with explicit include set / mode / minimum
    if include is not None:
        inc = io
        for mode in MG.MODES:
            _, g = M.groups(mode, False)
            for k in (1, 2, 3, 4):
                got = L.C.count_steps(as_form(rnotes, k + MG.MODES.index(mode)), include_note_types=inc, same_beat_notes=L.MODE[mode], same_beat_minimum=k)
                exp = MG.count_groups(g, k)
                need(got == exp, lambda: f"count_steps({show(notes)}, include={include!r}, same_beat={mode}, same_beat_minimum={k}) = {got}, expected {exp}")
                n += 1
    if count_too:
        n += eval_counts(L, notes, rnotes)
    return n, M


def stream_domain_problem(case):
    cols = case["cols"]
    if not (1 <= cols <= 6):
        return "columns outside 1..6"
    pos = [(F(b[0], b[1]), c) for b, c, _t, _k in case["notes"]]
    if any(not (0 <= c < cols) for _b, c in pos):
        return "column outside the stream's width"
    if any(a >= b for a, b in zip(pos, pos[1:])):
        return "stream not strictly position-sorted"
    return None


def corpus_streams(path, chart):
    """per-player model streams of a corpus chart, read through the public API"""
    import simfile
    from simfile.notes import NoteData
    from .. import gen_timing as GT

    sf = simfile.open(GT.corpus_path(path))
    nd = NoteData(sf.charts[chart])
    per = {}
    for n in nd:
        per.setdefault(n.player, []).append((F(n.beat), n.column, n.note_type.value, n.player, n.keysound_index))
    return per


def check(case):
    L = lib()
    kind = case["kind"]

    if kind == "grid":
        R, Cc = case["rows"], case["cols"]
        evals = 0
        weight = 0
        for idx in range(case["lo"], case["hi"]):
            notes = MG.grid_stream(idx, R, Cc, GRID_KINDS, MG.GRID_BEATS)
            rnotes = real_notes(L, notes)
            M = MG.Model(notes)
            for mi, mode in enumerate(MG.MODES):
                oh, ot = MG.POLICY_PAIRS[(idx + 3 * mi) % 9]
                evals += eval_group(L, M, rnotes, None, mode, False, oh, ot)
                for oh, ot in MG.POLICY_PAIRS:
                    evals += eval_group(L, M, rnotes, None, mode, True, oh, ot)
            evals += eval_counts(L, notes, rnotes)
            if nontrivial(M.shape()):
                weight += COMBOS
        return Verdict(nontrivial=weight > 0, evals=evals, weight=weight, labels=("grid-chunk",))

    if kind == "stream":
        why = stream_domain_problem(case)
        if why:
            return Verdict(excluded=why)
        notes = MG.notes_from_spec(case["notes"], case.get("player", 0))
        include = case.get("include")
        n, M = full_stream_check(L, notes, include)
        shape = M.shape()
        labs = labels_of(shape)
        labs.append("include:" + ("omitted" if include is None else {MG.COUNT_DEFAULT: "count-default", "23": "hold+tail", "43": "roll+tail", MG.ALL_TYPES: "all-explicit"}.get(include, "subset")))
        if any(k is not None for *_x, k in case["notes"]):
            labs.append("keysounds")
        if any(t == "4" for _b, _c, t, _k in case["notes"]):
            labs.append("roll-heads")
        if not notes:
            labs.append("empty-stream")
        return Verdict(nontrivial=nontrivial(shape), labels=labs, evals=n)

    if kind == "corpus":
        per = corpus_streams(case["path"], case["chart"])
        include = case.get("include")
        n = 0
        nt = False
        labs = ["corpus"]
        for p in sorted(per):
            k, M = full_stream_check(L, per[p], include)
            n += k
            shape = M.shape()
            nt = nt or nontrivial(shape)
            labs.extend("corpus:" + s for s in labels_of(shape))
        if len(per) > 1:
            labs.append("corpus:routine-per-player")
        if not per:
            labs.append("corpus:empty-chart")
        return Verdict(nontrivial=nt, labels=sorted(set(labs)), evals=max(n, 1))

    raise Violation(f"unknown case kind {kind!r}")


# ---------------------------------------------------------------------------------------------------------------


def _grid_iter(rows):
    total = len(GRID_KINDS) ** (rows * GRID_COLS)
    chunk = 125 if rows <= 3 else 625

    def it(shard, nshards):
        for lo, hi in MG.grid_chunks(total, chunk, shard, nshards):
            yield {"kind": "grid", "rows": rows, "cols": GRID_COLS, "lo": lo, "hi": hi}

    return it


@st.composite
def s_stream(draw):
    s = draw(MG.streams())
    s["kind"] = "stream"
    s["include"] = draw(MG.INCLUDES)
    return s


def corpus_cases():
    from .. import gen_notes as N

    return [{"kind": "corpus", "path": rel, "chart": i, "include": inc} for inc in CORPUS_INCLUDES for rel, i in N.corpus_charts()]


def long_hold_cases():
    """a hold or roll kept open while a thousand and more other notes go by (a freeze held through a whole stream), with a
    second, short hold inside it; everything that has to be buffered until the long one closes comes out afterwards"""
    out = []
    for n, head in ((1100, "2"), (1500, "4"), (3200, "2")):
        notes = [[[0, 1], 0, head, None]]
        for i in range(1, n + 1):
            t = "1" if i % 7 else "M"
            notes.append([[i, 4], 1 + i % 3, t, (i % 10 if i % 11 == 0 else None)])
        notes[5] = [[5, 4], 1 + 5 % 3, "2", None]
        notes[9] = [[9, 4], 1 + 5 % 3, "3", None]
        notes.append([[n + 1, 4], 0, "3", None])
        notes.append([[n + 2, 4], 2, "1", None])
        out.append({"kind": "stream", "cols": 4, "notes": notes, "include": None})
    return out


def parts(tier):
    q = tier == "quick"
    rows = 3 if q else 4
    return [
        {"name": "corpus", "kind": "fixed", "cases": corpus_cases},
        {"name": "long-holds", "kind": "fixed", "cases": long_hold_cases},
        {"name": f"grid-2x{rows}", "kind": "enum", "iter": _grid_iter(rows), "exhaustive": True},
        {"name": "streams", "kind": "hypothesis", "strategy": s_stream, "examples": 5000 if q else 16 * 10000},
    ]
