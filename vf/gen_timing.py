"""
Timeline generators shared by C11, C12, C13 (DESIGN.md 4.5).

Domain (from the properties' quantifier): first BPM at beat 0, BPMs 1..2000, strictly increasing tick-aligned
non-negative beats inside each list, positive stop/delay lengths, positive warp lengths (tick multiples), any
offset, any coincidence of different kinds of event on one beat.
Magnitude bound: last event beat <= 200, so every time stays below 1e5 s and a 1e-9 s tolerance is sound.
"""
import itertools
from decimal import Decimal as D

from hypothesis import strategies as st

MAX_TICK = 200 * 48

# the last entries: the same kind of numbers in other spellings a decimal parser accepts (exponent, sign, bare dot)
BPM_POOL = ["60", "120", "90.5", "240", "1", "2000", "133.333", "180.25", "59.999", "300", "7.5", "1000.001", "1.5E+2", "1.2e2", "+120", "120.", "0120.50"]
LEN_POOL = ["0.25", "0.5", "1.125", "0.001", "10", "0.333", "2", ".25", "2.5E-1", "+0.5", "5E-1", "1e0",
            # six-decimal values as SSC files carry them, down to a microsecond: short, but positive
            "0.000400", "0.000500", "0.000001", "0.000049", "1E-4"]

bpm_value = st.one_of(
    st.sampled_from(BPM_POOL),
    st.decimals(1, 2000, places=3, allow_nan=False, allow_infinity=False).map(str),
    st.integers(1, 2000).map(str),
)
pause_value = st.one_of(
    st.sampled_from(LEN_POOL),
    st.decimals(D("0.001"), 10, places=3, allow_nan=False, allow_infinity=False).map(str),
)
offset_value = st.one_of(
    st.sampled_from(["0", "-0.009", "1.5", "0.25", "0.000", "-12.345678", None, "", "-9E-3", "+1.5", "-0.0123456789", "0.00000049", "12.3456785"]),
    st.decimals(-100, 100, places=9, allow_nan=False, allow_infinity=False).map(str),
    st.decimals(-100, 100, places=3, allow_nan=False, allow_infinity=False).map(str),
    st.decimals(-100, 100, places=6, allow_nan=False, allow_infinity=False).map(str),
)


@st.composite
def timelines(draw, max_events=4, span=None):
    # anchors: ticks on which several kinds of event are likely to coincide
    hi = span if span is not None else draw(st.sampled_from([6 * 48, 12 * 48, 12 * 48, 40 * 48, MAX_TICK]))
    grid = draw(st.sampled_from([1, 2, 3, 4, 6, 8, 12, 16, 24, 48]))
    anchor = st.integers(0, hi // grid).map(lambda i: i * grid)
    anchors = draw(st.lists(anchor, min_size=2, max_size=6, unique=True))
    beat = st.one_of(st.sampled_from(anchors), st.sampled_from(anchors), anchor, st.integers(0, hi))

    def beats(n_max, lo=0):
        ks = draw(st.lists(beat.filter(lambda k: k >= lo), max_size=n_max, unique=True))
        return sorted(ks)

    bpms = [[0, draw(bpm_value)]] + [[k, draw(bpm_value)] for k in beats(max_events, lo=1)]
    if len(bpms) > 1 and draw(st.integers(0, 3)) == 0:
        # a tempo change so small that it only shows in the 4th..6th decimal (139.999924 -> 140.000061): still a change
        i = draw(st.integers(1, len(bpms) - 1))
        near = D(bpms[i - 1][1]) + draw(st.sampled_from([D("0.000137"), D("0.0004"), D("-0.0003"), D("0.000001"), D("0.0005")]))
        if 1 <= near <= 2000:
            bpms[i][1] = format(near, "f")
    stops = [[k, draw(pause_value)] for k in beats(max_events)]
    delays = [[k, draw(pause_value)] for k in beats(max_events)]
    warps = []
    for k in beats(max_events):
        later = [a - k for a in anchors if a > k]
        choices = [st.integers(1, 96), st.sampled_from([1, 2, 12, 24, 48, 96, 192])]
        if later:
            choices.append(st.sampled_from(later))
            choices.append(st.sampled_from(later))
        warps.append([k, draw(st.one_of(*choices))])
    if warps and draw(st.integers(0, 2)) == 0:
        # another warp starting exactly on, one or two ticks after, or one tick before the end of an existing one
        k0, l0 = draw(st.sampled_from(warps))
        start = k0 + l0 + draw(st.sampled_from([0, 1, 1, 2, -1]))
        if 0 <= start <= hi + 96 and start not in [k for k, _ in warps]:
            warps = sorted(warps + [[start, draw(st.sampled_from([1, 2, 24, 48]))]])
    return {
        "bpms": bpms,
        "stops": stops,
        "delays": delays,
        "warps": warps,
        "offset": draw(offset_value),
        # where the timing data comes from: SSC simfile, SM simfile, SM simfile with the FREEZES spelling, SSC chart
        "source": draw(st.sampled_from(["ssc", "ssc", "ssc", "ssc", "sm", "sm-freezes", "sm-freezes", "ssc-chart", "ssc-chart", "sm-stale-freezes", "sm-stale-freezes-first"])),
        "version": draw(st.sampled_from(["0.83", "0.83", "0.7", " 0.83", "+0.83", "1.0", "0.70 ", ".7", "00.83"])),
    }


# ---------------------------------------------------------------------------------------------
# complete placements on a small grid

GRID = [0, 24, 48, 72, 96, 120]
CHANGE_BPM = {24: "60", 48: "240", 72: "90", 96: "180", 120: "150"}


def _events():
    ev = []
    for k in GRID:
        if k != 0:
            ev.append(("bpm", k))
    for k in GRID:
        ev.append(("stop", k))
    for k in GRID:
        ev.append(("delay", k))
    for k in GRID:
        ev.append(("warp24", k))
    for k in GRID:
        ev.append(("warp48", k))
    return ev


EVENTS = _events()


_SOURCES = ("ssc", "sm-freezes", "ssc-chart", "sm", "sm-stale-freezes", "ssc-chart", "sm-stale-freezes-first", "ssc")


def placement_timeline(combo):
    tl = {"bpms": [[0, "120"]], "stops": [], "delays": [], "warps": [], "offset": "0.125"}
    for kind, k in combo:
        if kind == "bpm":
            tl["bpms"].append([k, CHANGE_BPM[k]])
        elif kind == "stop":
            tl["stops"].append([k, "0.25"])
        elif kind == "delay":
            tl["delays"].append([k, "0.125"])
        elif kind == "warp24":
            tl["warps"].append([k, 24])
        else:
            tl["warps"].append([k, 48])
    for key in ("bpms", "stops", "delays", "warps"):
        tl[key].sort()
    return tl


def placements(max_events):
    """every set of up to max_events events (at most one warp per beat), as timelines; the source kind rotates"""
    _count = 0
    for n in range(max_events + 1):
        for combo in itertools.combinations(EVENTS, n):
            wb = [k for kind, k in combo if kind.startswith("warp")]
            if len(wb) != len(set(wb)):
                continue
            tl = placement_timeline(combo)
            tl["source"] = _SOURCES[_count % len(_SOURCES)]
            tl["version"] = ("0.83", " 0.83", "0.7", "+1.0")[(_count // len(_SOURCES)) % 4]
            _count += 1
            yield tl


def placements_iter(max_events, shard, nshards):
    for i, tl in enumerate(placements(max_events)):
        if i % nshards == shard:
            yield tl


# ---------------------------------------------------------------------------------------------
# corpus


def corpus_timelines():
    """(name, simfile, chart_or_None) for every corpus simfile and chart - loaded by the caller"""
    import os
    from .core import REPO_ROOT

    out = []
    td = os.path.join(REPO_ROOT, "testdata")
    for root, _dirs, files in os.walk(td):
        for fn in sorted(files):
            if fn.lower().endswith((".sm", ".ssc")):
                out.append(os.path.relpath(os.path.join(root, fn), td))
    return sorted(out)


def corpus_path(rel):
    import os
    from .core import REPO_ROOT

    return os.path.join(REPO_ROOT, "testdata", rel)
