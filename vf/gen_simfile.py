"""
Strategies for simfile keys, values, chart specs and edit operations (DESIGN.md 4.2), shared by C01, C02, C04.
Every drawn string is passed through the context-free repairs of vf.msdgap, so the msdparser escaping gap is
excluded by construction.
"""
from hypothesis import strategies as st

from . import msdgap
from . import simmodel as M

# "\ufeff": a zero-width no-break space inside a key or value is content, only a leading one is a byte order mark
ALPH = list("AB0_ :;\\/\n") + ["//", "\r", "\r\n", "#", "\n#", "é", "ミ", "a", "b", ",", "\ufeff", "\n \n", "\n\t \n"]
KEY_ALPH = list("AB0_ :;\\/\n") + ["//", "\r", "#", "É", "ミ", "\ufeff"]
KNOWN_KEYS = [
    "TITLE", "SUBTITLE", "ARTIST", "CREDIT", "MUSIC", "BANNER", "OFFSET", "BPMS", "STOPS", "FREEZES", "DELAYS",
    "BGCHANGES", "ANIMATIONS", "ATTACKS", "DISPLAYBPM", "VERSION", "WARPS", "NOTES2", "NOTES", "NOTEDATA", "FOO", "",
    "VERSION ", " VERSION", "VERSION\n", "VERSIONS", "NOTES ", " NOTEDATA",
]
SSC_CHART_KEYS = [
    "STEPSTYPE", "DESCRIPTION", "DIFFICULTY", "METER", "RADARVALUES", "CHARTNAME", "CHARTSTYLE", "CREDIT", "MUSIC",
    "BPMS", "STOPS", "DELAYS", "WARPS", "LABELS", "ATTACKS", "DISPLAYBPM", "OFFSET", "FOO", "", "TITLE", "VERSION",
]


def _upper_key(t):
    return "".join(ch for ch in t.upper() if ch.upper() == ch)


def keys(fmt, chart=False):
    reserved = {"NOTEDATA"} if fmt == "ssc" else {"NOTES"}
    if chart:
        reserved |= {"NOTES", "NOTES2"}  # the note key of an SSC chart is placed separately
    pool = SSC_CHART_KEYS if chart else KNOWN_KEYS
    raw = st.one_of(
        st.sampled_from(pool),
        st.sampled_from(pool),
        st.lists(st.sampled_from(KEY_ALPH), max_size=4).map("".join),
        st.text(max_size=6).map(_upper_key),
    )

    def fix(k):
        k = msdgap.safe_key(_upper_key(k))
        if k in reserved:
            k = k + "_"
        return k

    return raw.map(fix)


SHORT = st.sampled_from(["", "", "0", "1", "a", ":", ";", "\\", "/", "#", "\n", " ", "M", "é"])
LONG = st.builds(
    lambda unit, n, tail: (unit * n)[: 4090 + tail] if unit else "x" * (4090 + tail),
    st.sampled_from(["ab\\:;", "0000\n", "a:b;c\\", "//x\n", "é", "1/2"]),
    st.just(1400),
    st.integers(0, 20),
)


@st.composite
def boundary_values(draw):
    """long strings with a metacharacter token placed exactly on / next to a multiple of 4096 (lexer chunk, typical
    buffer and slice sizes), so that escaping done piecewise or a token cut in two becomes visible"""
    k = draw(st.sampled_from([1, 1, 1, 1, 2, 2, 4, 8, 16, 16, 32]))
    back = draw(st.integers(-3, 6))
    tok = draw(st.sampled_from(["//", "//", ":", ";", "\\", "\\:", ";;", "//x", "/", "a:b", "é", "\n"]))
    fill = draw(st.sampled_from(["x", "x", "0", "é"]))
    tail = draw(st.sampled_from(["", "y", "tail\n", ":z"]))
    return fill * max(0, k * 4096 - back) + tok + tail


def values(allow_none=True, long_ok=True):
    opts = [
        SHORT,
        st.lists(st.sampled_from(ALPH), max_size=8).map("".join),
        st.lists(st.sampled_from(ALPH), max_size=8).map("".join),
        st.text(max_size=8),
        st.sampled_from(["0.000=120.000", "a:b", "120:240", "*", "TIME=1.5:LEN=2:MODS=*2 x", "file.ogg", "0000\n0000\n0000\n0000"]),
    ]
    if long_ok:
        opts.append(st.integers(0, 24).flatmap(lambda i: LONG if i == 0 else boundary_values() if i in (1, 2) else SHORT))
    if allow_none:
        opts.append(st.none())
    return st.one_of(*opts).map(msdgap.safe_text)


AMBIG_KEYS = ["A", "A:B", "A:", "CREDIT", "TITLE", "A:B:C"]
AMBIG_VALUES = [None, "None", "B:C", ":B:C", "C", "", "B", ":B"]


@st.composite
def pairs(draw, fmt, chart=False):
    k = draw(keys(fmt, chart=chart))
    v = draw(values())
    sel = draw(st.integers(0, 21))
    if sel in (20, 21):
        # pairs that coincide once key and value are glued together or printed (a colon moved between the end of the
        # key and the start of the value, None against the text "None"): anything keyed on such a rendering mixes them up
        k = draw(st.sampled_from(AMBIG_KEYS))
        v = draw(st.sampled_from(AMBIG_VALUES))
        return list(msdgap.safe_pair(k, v))
    if sel in (3, 4):
        # the same colon-containing string under several keys of one simfile / chart (multi-value and ordinary ones)
        v = draw(st.shared(st.sampled_from(["120:240", "a:b", "TIME=1.5:LEN=2:MODS=*2 x", "1:2:3", ":"]), key="shared-colon-value"))
        if sel == 4:
            k = draw(st.sampled_from(msdgap.MULTI))
        return list(msdgap.safe_pair(k, v))
    if sel == 1:
        v = msdgap.safe_text(draw(boundary_values()))
    if sel in (0, 2):
        k = draw(st.sampled_from(msdgap.MULTI))
        v = ":".join(draw(st.lists(values(allow_none=False, long_ok=False), min_size=1, max_size=4)))
        v = msdgap.safe_text(v)
    return list(msdgap.safe_pair(k, v))


def stripped(long_ok=False):
    return values(allow_none=False, long_ok=long_ok).map(lambda s: msdgap.safe_text(s.strip()))


NOTE_TEXT = st.sampled_from(["0000\n0000\n0000\n0000", "1000\n0100\n0010\n0001\n,\n0000\n0000\n0000\n0000", "", "0", "1", "M"])


@st.composite
def sm_chart_specs(draw):
    fields = [draw(stripped()) for _ in range(5)]
    notes = draw(st.one_of(NOTE_TEXT, stripped(long_ok=True)))
    notes = msdgap.safe_start(notes)
    extra = draw(st.one_of(st.none(), st.none(), st.lists(values(allow_none=False, long_ok=False).map(msdgap.safe_start), min_size=1, max_size=3)))
    via = draw(st.sampled_from(["from_msd", "from_msd", "blank_edit", "empty_shuffled"]))
    spec = {"fields": fields + [notes], "extra": extra, "via": via}
    if via == "empty_shuffled":
        spec["order"] = list(draw(st.permutations(range(6))))
    return spec


@st.composite
def ssc_chart_specs(draw):
    base = draw(st.sampled_from(["empty", "empty", "blank"]))
    items = draw(st.lists(pairs("ssc", chart=True), max_size=6, unique_by=lambda kv: kv[0]))
    nk = draw(st.sampled_from(["NOTES", "NOTES", "NOTES2"]))
    nv = draw(st.one_of(NOTE_TEXT, NOTE_TEXT, values(allow_none=True, long_ok=True)))
    # sometimes make other values the very same string object / an equal string as the note data
    if items and draw(st.integers(0, 2)) == 0:
        for it in draw(st.lists(st.sampled_from(items), max_size=3)):
            it[1] = nv
            it[0], it[1] = msdgap.safe_pair(it[0], it[1])
    spec = {"base": base, "items": [], "del": []}
    if base == "blank":
        spec["del"] = ["NOTES"] if nk == "NOTES2" else []
        if draw(st.booleans()):
            spec["del"] += draw(st.lists(st.sampled_from(["CHARTNAME", "CREDIT", "DESCRIPTION", "METER"]), max_size=2, unique=True))
        pos = len(items)  # blank already holds NOTES last unless deleted
        if nk == "NOTES" and draw(st.booleans()):
            # keep blank's position for NOTES, only change its value
            pass
    pos = draw(st.integers(0, len(items)))
    items.insert(pos, [nk, nv])
    spec["items"] = items
    return spec


def chart_specs(fmt):
    return sm_chart_specs() if fmt == "sm" else ssc_chart_specs()


def attr_names(fmt):
    table = M.SM_SIM_ATTRS if fmt == "sm" else M.SSC_SIM_ATTRS
    return st.sampled_from(sorted(table))


def attr_value(fmt, attr, v):
    """value assigned through a simfile attribute: repaired for the key it may land on"""
    table = M.SM_SIM_ATTRS if fmt == "sm" else M.SSC_SIM_ATTRS
    std, alias = table[attr]
    return v


@st.composite
def sim_ops(draw, fmt):
    """one simfile-level or chart-list-level operation (indices are taken modulo the current length)"""
    kind = draw(
        st.sampled_from(
            ["set", "set", "set", "del", "aset", "aset", "adel", "chart_add", "chart_add", "chart_insert", "chart_remove",
             "chart_swap", "chart_replace", "charts_assign", "charts_reverse", "cset", "cset", "cextra" if fmt == "sm" else "caset",
             "cdel" if fmt == "ssc" else "cset", "cadel" if fmt == "ssc" else "cextra", "check"]
        )
    )
    idx = st.integers(0, 5)
    if kind == "set":
        k, v = draw(pairs(fmt))
        return ["set", k, v]
    if kind == "del":
        return ["del", draw(keys(fmt))]
    if kind == "aset":
        a = draw(attr_names(fmt))
        return ["aset", a, attr_value(fmt, a, draw(values()))]
    if kind == "adel":
        return ["adel", draw(attr_names(fmt))]
    if kind == "chart_add":
        return ["chart_add", draw(chart_specs(fmt))]
    if kind == "chart_insert":
        return ["chart_insert", draw(idx), draw(chart_specs(fmt))]
    if kind == "chart_remove":
        return ["chart_remove", draw(idx)]
    if kind == "chart_swap":
        return ["chart_swap", draw(idx), draw(idx)]
    if kind == "chart_replace":
        return ["chart_replace", draw(idx), draw(chart_specs(fmt))]
    if kind == "charts_assign":
        return ["charts_assign", draw(st.lists(chart_specs(fmt), max_size=3))]
    if kind == "charts_reverse":
        return ["charts_reverse"]
    if kind == "check":
        return ["check"]
    if fmt == "sm":
        if kind == "cset":
            fi = draw(st.integers(0, 5))
            v = draw(stripped(long_ok=(fi == 5)))
            if fi == 5:
                v = msdgap.safe_start(v)
            return ["cset", draw(idx), fi, v, draw(st.sampled_from(["attr", "key"]))]
        if kind == "cextra":
            how = draw(st.integers(0, 3))
            ev = values(allow_none=False, long_ok=False).map(msdgap.safe_start)
            if how == 0:
                return ["cextra_append", draw(idx), draw(ev)]
            if how == 1:
                return ["cextra_setitem", draw(idx), draw(st.integers(0, 3)), draw(ev)] if draw(st.booleans()) else ["cextra_pop", draw(idx)]
            return ["cextra", draw(idx), draw(st.one_of(st.none(), st.just([]), st.lists(ev, min_size=1, max_size=3)))]
    else:
        if kind == "cset":
            if draw(st.integers(0, 3)) == 0:
                # change the note data through whichever note key the chart has: resolved by the interpreter
                return ["caset", draw(idx), "notes", draw(st.one_of(NOTE_TEXT, values(allow_none=True)))]
            k, v = draw(pairs("ssc", chart=True))
            return ["cset", draw(idx), k, v]
        if kind == "cdel":
            if draw(st.integers(0, 2)) == 0:
                return ["cnotes_rename", draw(idx)]
            return ["cdel", draw(idx), draw(keys("ssc", chart=True))]
        if kind == "caset":
            a = draw(st.sampled_from(sorted(M.SSC_CHART_ATTRS)))
            v = draw(values())
            return ["caset", draw(idx), a, v]
        if kind == "cadel":
            return ["cadel", draw(idx), draw(st.sampled_from(sorted(M.SSC_CHART_ATTRS)))]
    raise AssertionError(kind)


@st.composite
def boundary_constructions(draw, fmt):
    """one simfile whose note data (or one value) carries an escaped-on-save token exactly on a multiple of 4096 / 65536"""
    k = draw(st.sampled_from([1, 2, 16, 16, 16, 32]))
    back = draw(st.sampled_from([1, 1, 0, 2, -1, 3]))
    tok = draw(st.sampled_from(["//", "//", "//", "//", ":", ";", "\\"]))
    body = "0" * max(0, k * 4096 - back) + tok + draw(st.sampled_from(["", "0", "\n0000"]))
    body = msdgap.safe_text(body).strip()
    where = draw(st.sampled_from(["notes", "notes", "value"]))
    ops = []
    if where == "value":
        ops.append(["set", draw(st.sampled_from(["BGCHANGES", "TITLE", "ATTACKS"])), body])
    if fmt == "sm":
        ops.append(["chart_add", {"fields": ["dance-single", "", "Hard", "9", "0,0", body if where == "notes" else "0000"], "extra": None, "via": "from_msd"}])
    else:
        nk = draw(st.sampled_from(["NOTES", "NOTES2"]))
        ops.insert(0, ["set", "VERSION", "0.83"])
        ops.append(["chart_add", {"base": "empty", "del": [], "items": [["STEPSTYPE", "dance-single"], [nk, body if where == "notes" else "0000"]]}])
    return {"kind": "history", "fmt": fmt, "base": "empty", "ops": ops}


def boundary_grid(fmt):
    """complete grid of small boundary constructions: an escaped-on-save token `back` characters before a round offset
    (powers of two 256..8192 and round decimal sizes 500..10000), counted from the start of the value (note data or a
    property value) or from the start of the serialized text (the value of the first property - for SSC that is
    VERSION itself)"""
    out = []
    for size in (256, 500, 512, 1000, 1024, 2000, 2048, 4000, 4096, 8192, 10000):
        for back in (-1, 0, 1, 2, 3):
            for tok in ("//", ":", ";", "\\"):
                for where in ("notes", "value", "text"):
                    key = "VERSION" if (where == "text" and fmt == "ssc") else "BGCHANGES"
                    if where == "text":
                        prefix = "#" + key + ":"
                        fill = size - back - len(prefix)
                    else:
                        fill = size - back
                    body = msdgap.safe_text("0" * fill + tok + "0").strip()
                    ops = []
                    if where != "notes":
                        ops.append(["set", key, body])
                    if fmt == "sm":
                        ops.append(["chart_add", {"fields": ["dance-single", "", "Hard", "9", "0,0", body if where == "notes" else "0000"], "extra": None, "via": "from_msd"}])
                    else:
                        if key != "VERSION":
                            ops.insert(0, ["set", "VERSION", "0.83"])
                        ops.append(["chart_add", {"base": "empty", "del": [], "items": [["STEPSTYPE", "dance-single"], ["NOTES", body if where == "notes" else "0000"]]}])
                    out.append({"kind": "history", "fmt": fmt, "base": "empty", "ops": ops})
    return out


def bases(fmt):
    corpus = ["corpus:nekonabe/nekonabe.sm", "corpus:blank/blank.sm"] if fmt == "sm" else ["corpus:L9/L9.ssc", "corpus:blank/blank.ssc", "corpus:Springtime/Springtime.ssc"]
    return st.sampled_from(["empty", "empty", "blank", "blank"] + corpus)


@st.composite
def histories(draw, fmt, max_ops=12):
    return {"kind": "history", "fmt": fmt, "base": draw(bases(fmt)), "ops": draw(st.lists(sim_ops(fmt), max_size=max_ops))}


@st.composite
def constructions(draw, fmt):
    """direct construction: an empty simfile filled with pairs and charts"""
    ps = draw(st.lists(pairs(fmt), max_size=6, unique_by=lambda kv: kv[0]))
    if draw(st.integers(0, 7)) == 0:
        first = draw(st.sampled_from(["VERSION ", " VERSION", "VERSION\n", "\tVERSION", "VERSIONS", "XVERSION", "VERSION/2", "VERSION:", "VERSION;X", "VERSION\\", "VERSION//"] if fmt == "sm" else ["VERSION"]))
        ps = [[first, draw(st.sampled_from(["0.83", "", None]))]] + [p for p in ps if p[0] != first]
    cs = draw(st.lists(chart_specs(fmt), max_size=3))
    ops = [["set", k, v] for k, v in ps] + [["chart_add", c] for c in cs]
    return {"kind": "history", "fmt": fmt, "base": "empty", "ops": ops}
