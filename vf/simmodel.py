"""
Dictionary/list model of SM and SSC simfiles and an interpreter that applies a plain-data edit history to the real
object and to the model side by side (used by C01, C02; the alias rules are shared with C18).

Model
  items   ordered list of [key, value]            (value: str or None)
  charts  SM : list of {"fields": [6 strings], "extra": list|None}
          SSC: list of ordered lists of [key, value]
"""
import copy

from .core import Violation
from . import msdgap

SM_FIELDS = ("STEPSTYPE", "DESCRIPTION", "DIFFICULTY", "METER", "RADARVALUES", "NOTES")
SM_ATTRS = ("stepstype", "description", "difficulty", "meter", "radarvalues", "notes")

# attribute -> (standard key, alias or None), transcribed from the documentation of BaseSimfile / SMSimfile /
# SSCSimfile / SSCChart known properties
BASE_ATTRS = {
    "title": ("TITLE", None), "subtitle": ("SUBTITLE", None), "artist": ("ARTIST", None),
    "titletranslit": ("TITLETRANSLIT", None), "subtitletranslit": ("SUBTITLETRANSLIT", None),
    "artisttranslit": ("ARTISTTRANSLIT", None), "genre": ("GENRE", None), "credit": ("CREDIT", None),
    "banner": ("BANNER", None), "background": ("BACKGROUND", None), "lyricspath": ("LYRICSPATH", None),
    "cdtitle": ("CDTITLE", None), "music": ("MUSIC", None), "offset": ("OFFSET", None), "bpms": ("BPMS", None),
    "stops": ("STOPS", None), "delays": ("DELAYS", None), "timesignatures": ("TIMESIGNATURES", None),
    "tickcounts": ("TICKCOUNTS", None), "instrumenttrack": ("INSTRUMENTTRACK", None),
    "samplestart": ("SAMPLESTART", None), "samplelength": ("SAMPLELENGTH", None), "displaybpm": ("DISPLAYBPM", None),
    "selectable": ("SELECTABLE", None), "bgchanges": ("BGCHANGES", "ANIMATIONS"), "fgchanges": ("FGCHANGES", None),
    "keysounds": ("KEYSOUNDS", None), "attacks": ("ATTACKS", None),
}
SM_SIM_ATTRS = dict(BASE_ATTRS, stops=("STOPS", "FREEZES"))
SSC_SIM_ATTRS = dict(
    BASE_ATTRS,
    version=("VERSION", None), origin=("ORIGIN", None), previewvid=("PREVIEWVID", None), jacket=("JACKET", None),
    cdimage=("CDIMAGE", None), discimage=("DISCIMAGE", None), preview=("PREVIEW", None),
    musiclength=("MUSICLENGTH", None), lastsecondhint=("LASTSECONDHINT", None), warps=("WARPS", None),
    labels=("LABELS", None), combos=("COMBOS", None), speeds=("SPEEDS", None), scrolls=("SCROLLS", None),
    fakes=("FAKES", None),
)
SSC_CHART_ATTRS = {
    "stepstype": ("STEPSTYPE", None), "description": ("DESCRIPTION", None), "difficulty": ("DIFFICULTY", None),
    "meter": ("METER", None), "radarvalues": ("RADARVALUES", None), "notes": ("NOTES", "NOTES2"),
    "chartname": ("CHARTNAME", None), "chartstyle": ("CHARTSTYLE", None), "credit": ("CREDIT", None),
    "music": ("MUSIC", None), "bpms": ("BPMS", None), "stops": ("STOPS", None), "delays": ("DELAYS", None),
    "timesignatures": ("TIMESIGNATURES", None), "tickcounts": ("TICKCOUNTS", None), "combos": ("COMBOS", None),
    "warps": ("WARPS", None), "speeds": ("SPEEDS", None), "scrolls": ("SCROLLS", None), "fakes": ("FAKES", None),
    "labels": ("LABELS", None), "attacks": ("ATTACKS", None), "offset": ("OFFSET", None),
    "displaybpm": ("DISPLAYBPM", None),
}


def need(c, msg):
    if not c:
        raise Violation(msg)


# ------------------------------------------------------------------------------------------------
# ordered list-of-pairs helpers


def m_get(items, k):
    for kk, v in items:
        if kk == k:
            return v
    raise KeyError(k)


def m_has(items, k):
    return any(kk == k for kk, _ in items)


def m_set(items, k, v):
    for it in items:
        if it[0] == k:
            it[1] = v
            return
    items.append([k, v])


def m_del(items, k):
    for i, it in enumerate(items):
        if it[0] == k:
            del items[i]
            return
    raise KeyError(k)


def attr_key(items, std, alias):
    """the documented rule: the alias exactly when it is present and the standard key is not"""
    if not m_has(items, std) and alias and m_has(items, alias):
        return alias
    return std


# ------------------------------------------------------------------------------------------------
# building real objects


def classes(fmt):
    from simfile.sm import SMChart, SMSimfile
    from simfile.ssc import SSCChart, SSCSimfile

    return (SMSimfile, SMChart) if fmt == "sm" else (SSCSimfile, SSCChart)


def make_sm_chart(spec):
    from simfile.sm import SMChart

    via = spec.get("via", "from_msd")
    f = list(spec["fields"])
    extra = spec.get("extra")
    if via == "empty_shuffled":
        # an empty SMChart filled key by key in an arbitrary order: the serialized field order is the documented one
        c = SMChart()
        order = spec.get("order") or list(range(6))
        for fi in order:
            c[SM_FIELDS[fi]] = f[fi]
        if extra is not None:
            c.extradata = list(extra)
    elif via == "blank_edit":
        c = SMChart.blank()
        for attr, v in zip(SM_ATTRS, f):
            setattr(c, attr, v)
        if extra is not None:
            c.extradata = list(extra)
    else:
        c = SMChart.from_msd(f + list(extra or []))
    return c


def make_ssc_chart(spec):
    from simfile.ssc import SSCChart

    c = SSCChart.blank() if spec.get("base") == "blank" else SSCChart()
    if spec.get("base") == "blank":
        for k in spec.get("del", []):
            if k in c:
                del c[k]
    for k, v in spec["items"]:
        c[k] = v
    return c


def ssc_chart_model(spec):
    from simfile.ssc import SSCChart

    items = []
    if spec.get("base") == "blank":
        items = [[k, v] for k, v in SSCChart.blank().items()]
        for k in spec.get("del", []):
            if m_has(items, k):
                m_del(items, k)
    for k, v in spec["items"]:
        m_set(items, k, v)
    return items


def observe(obj, fmt):
    """plain picture of a real simfile through the public mapping/list API"""
    items = [[k, v] for k, v in obj.items()]
    charts = []
    for c in obj.charts:
        if not hasattr(c, "items"):
            raise Violation(f"the simfile's chart list holds {c!r}, which is not a chart")
        if fmt == "sm":
            charts.append({"fields": [c[k] for k in SM_FIELDS], "extra": list(c.extradata) if c.extradata else None})
        else:
            charts.append([[k, v] for k, v in c.items()])
    return items, charts


def norm_sm_charts(charts):
    return [{"fields": list(c["fields"]), "extra": (list(c["extra"]) if c.get("extra") else None)} for c in charts]


class Interp:
    """applies ops to the real simfile and the model; `invariant` is supplied by the property module"""

    def __init__(self, fmt, base):
        self.fmt = fmt
        Sim, Chart = classes(fmt)
        self.Sim, self.Chart = Sim, Chart
        if base == "blank":
            self.obj = Sim.blank()
        elif base == "empty":
            self.obj = Sim(string="")
        elif base.startswith("corpus:"):
            from . import gen_timing as G

            with open(G.corpus_path(base[7:]), encoding="utf-8") as f:
                self.obj = Sim(string=f.read())
        else:
            raise Violation(f"unknown base {base}")
        self.items, self.charts = observe(self.obj, fmt)
        self.attrs = SM_SIM_ATTRS if fmt == "sm" else SSC_SIM_ATTRS
        self.nops = 0
        self.labels = set()

    # -- helpers
    def _chart(self, i):
        n = len(self.charts)
        return None if n == 0 else i % n

    def _mk(self, spec):
        if self.fmt == "sm":
            return make_sm_chart(spec), {"fields": list(spec["fields"]), "extra": (list(spec["extra"]) if spec.get("extra") else None)}
        return make_ssc_chart(spec), ssc_chart_model(spec)

    def step(self, op):
        self.nops += 1
        kind = op[0]
        o, items = self.obj, self.items
        if kind == "set":
            o[op[1]] = op[2]
            m_set(items, op[1], op[2])
        elif kind == "del":
            if m_has(items, op[1]):
                del o[op[1]]
                m_del(items, op[1])
            else:
                try:
                    del o[op[1]]
                except KeyError:
                    pass
                else:
                    raise Violation(f"del simfile[{op[1]!r}] on an absent key did not raise KeyError")
        elif kind == "aset":
            std, alias = self.attrs[op[1]]
            k = attr_key(items, std, alias)
            setattr(o, op[1], op[2])
            m_set(items, k, op[2])
            if k == alias:
                self.labels.add("attr-through-alias")
        elif kind == "adel":
            std, alias = self.attrs[op[1]]
            k = attr_key(items, std, alias)
            if m_has(items, k):
                delattr(o, op[1])
                m_del(items, k)
            else:
                try:
                    delattr(o, op[1])
                except KeyError:
                    pass
                else:
                    raise Violation(f"del simfile.{op[1]} on an absent property did not raise KeyError")
        elif kind == "chart_add":
            c, m = self._mk(op[1])
            o.charts.append(c)
            self.charts.append(m)
        elif kind == "chart_insert":
            c, m = self._mk(op[2])
            i = op[1] % (len(self.charts) + 1)
            o.charts.insert(i, c)
            self.charts.insert(i, m)
        elif kind == "chart_remove":
            i = self._chart(op[1])
            if i is not None:
                del o.charts[i]
                del self.charts[i]
        elif kind == "chart_swap":
            i, j = self._chart(op[1]), self._chart(op[2])
            if i is not None:
                o.charts[i], o.charts[j] = o.charts[j], o.charts[i]
                self.charts[i], self.charts[j] = self.charts[j], self.charts[i]
        elif kind == "chart_replace":
            i = self._chart(op[1])
            if i is not None:
                c, m = self._mk(op[2])
                o.charts[i] = c
                self.charts[i] = m
        elif kind == "charts_assign":
            made = [self._mk(s) for s in op[1]]
            o.charts = [c for c, _ in made]
            self.charts = [m for _, m in made]
            self.labels.add("charts-assigned")
        elif kind == "charts_reverse":
            o.charts.reverse()
            self.charts.reverse()
        elif kind == "cset":  # SM: ["cset", i, field_index, value, how]; SSC: ["cset", i, key, value]
            i = self._chart(op[1])
            if i is not None:
                if self.fmt == "sm":
                    fi, v, how = op[2], op[3], op[4]
                    if how == "attr":
                        setattr(o.charts[i], SM_ATTRS[fi], v)
                    else:
                        o.charts[i][SM_FIELDS[fi]] = v
                    self.charts[i]["fields"][fi] = v
                else:
                    o.charts[i][op[2]] = op[3]
                    m_set(self.charts[i], op[2], op[3])
        elif kind == "cextra":  # SM only
            i = self._chart(op[1])
            if i is not None:
                o.charts[i].extradata = None if op[2] is None else list(op[2])
                self.charts[i]["extra"] = list(op[2]) if op[2] else None
        elif kind in ("cextra_append", "cextra_setitem", "cextra_pop"):  # SM only: edit the live extradata list in place
            i = self._chart(op[1])
            if i is not None:
                live = o.charts[i].extradata
                cur = list(self.charts[i]["extra"] or [])
                if kind == "cextra_append":
                    if live is None:
                        o.charts[i].extradata = [op[2]]
                    else:
                        live.append(op[2])
                    cur.append(op[2])
                elif cur:
                    if live is None:
                        raise Violation("extradata is None although the history gave the chart extra components")
                    if kind == "cextra_setitem":
                        j = op[2] % len(cur)
                        live[j] = op[3]
                        cur[j] = op[3]
                    else:
                        live.pop()
                        cur.pop()
                self.charts[i]["extra"] = cur or None
                self.labels.add("extradata-edited-in-place")
        elif kind == "cnotes_rename":  # SSC only: move the note data to the other spelling, carrying the same string object
            i = self._chart(op[1])
            if i is not None:
                cur = "NOTES" if m_has(self.charts[i], "NOTES") else "NOTES2"
                other = "NOTES2" if cur == "NOTES" else "NOTES"
                c = o.charts[i]
                c[other] = c.pop(cur)
                v = m_get(self.charts[i], cur)
                m_del(self.charts[i], cur)
                m_set(self.charts[i], other, v)
                self.labels.add("notes-key-renamed")
        elif kind == "cdel":  # SSC only; never the note key
            i = self._chart(op[1])
            if i is not None and m_has(self.charts[i], op[2]):
                del o.charts[i][op[2]]
                m_del(self.charts[i], op[2])
        elif kind == "caset":  # SSC chart attribute
            i = self._chart(op[1])
            if i is not None:
                std, alias = SSC_CHART_ATTRS[op[2]]
                k = attr_key(self.charts[i], std, alias)
                setattr(o.charts[i], op[2], op[3])
                m_set(self.charts[i], k, op[3])
                if k == alias:
                    self.labels.add("chart-attr-through-alias")
        elif kind == "cadel":
            i = self._chart(op[1])
            if i is not None:
                std, alias = SSC_CHART_ATTRS[op[2]]
                k = attr_key(self.charts[i], std, alias)
                if k not in ("NOTES", "NOTES2") and m_has(self.charts[i], k):
                    delattr(o.charts[i], op[2])
                    m_del(self.charts[i], k)
        elif kind == "check":
            pass
        else:
            raise Violation(f"unknown op {op}")

    def picture(self):
        return copy.deepcopy(self.items), copy.deepcopy(self.charts)
