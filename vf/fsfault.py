"""
Shared helpers of the file-saving properties C05 (mutate saves what was edited, in the detected encoding) and
C06 (a failed or cancelled mutate never damages the input file).

* scratch directories behind one small interface: `NativeDir` (a `tempfile.mkdtemp(prefix="vf-")` directory, used
  through the library's default filesystem) and `MemDir` (a `fs.memoryfs.MemoryFS`);
* snapshots (file name -> bytes) and resets of such a directory;
* the reference decoder (Python's codecs through `io.TextIOWrapper`, trusted base);
* a plain-data picture of a simfile (`canon`) read through the public mapping / list interface only, the relation
  "equal up to the position of an SSC chart's note item", and the msdparser dependency-gap predicate of DESIGN 4.1
  evaluated on that picture;
* edit scripts as plain data and their interpreter;
* the recording / fault-injecting filesystem wrapper: a thin subclass of the *class of the default `filesystem=`
  argument* of `simfile.mutate` for the native case, a `WrapFS` around `MemoryFS` for the in-memory case.  Only files
  opened for writing are proxied.
* Hypothesis strategies for small MSD documents drawn from the repertoire of one encoding.

Nothing here imports a private module of the package under test or reads a private attribute.
"""
import inspect
import io
import os
import re
import shutil
import tempfile

from .core import HarnessError

MAIN_ENCODINGS = ["utf-8", "cp1252", "cp932", "cp949"]  # documented default order
MULTI_VALUE = ("ATTACKS", "DISPLAYBPM")
SIX = ("STEPSTYPE", "DESCRIPTION", "DIFFICULTY", "METER", "RADARVALUES", "NOTES")


# --------------------------------------------------------------------------------------------------------------
# directories


def default_filesystem():
    """The filesystem object `simfile.mutate` uses when none is given (taken from the public signature)."""
    import simfile

    return inspect.signature(simfile.mutate).parameters["filesystem"].default


class NativeDir:
    kind = "native"

    def __init__(self):
        self.root = tempfile.mkdtemp(prefix="vf-")

    def path(self, name):
        return os.path.join(self.root, name)

    def name_of(self, path):
        return os.path.basename(os.path.normpath(path))

    def write(self, name, data):
        with open(self.path(name), "wb") as f:
            f.write(data)

    def snapshot(self):
        out = {}
        for n in os.listdir(self.root):
            p = os.path.join(self.root, n)
            if os.path.isdir(p):
                out[n] = "<directory>"
            else:
                with open(p, "rb") as f:
                    out[n] = f.read()
        return out

    def reset(self, files):
        for n in os.listdir(self.root):
            p = os.path.join(self.root, n)
            if os.path.isdir(p):
                shutil.rmtree(p)
            else:
                os.remove(p)
        for n, data in files.items():
            self.write(n, data)

    def fs_kwargs(self):
        return {}  # exercise the default filesystem

    def base_fs(self):
        return default_filesystem()

    def close(self):
        shutil.rmtree(self.root, ignore_errors=True)


class MemDir:
    kind = "mem"

    def __init__(self):
        from fs.memoryfs import MemoryFS

        self.fs = MemoryFS()

    def path(self, name):
        return "/" + name

    def name_of(self, path):
        return [x for x in path.split("/") if x not in ("", ".")][-1]

    def write(self, name, data):
        self.fs.writebytes("/" + name, data)

    def snapshot(self):
        out = {}
        for n in self.fs.listdir("/"):
            if self.fs.isdir("/" + n):
                out[n] = "<directory>"
            else:
                out[n] = self.fs.readbytes("/" + n)
        return out

    def reset(self, files):
        for n in self.fs.listdir("/"):
            if self.fs.isdir("/" + n):
                self.fs.removetree("/" + n)
            else:
                self.fs.remove("/" + n)
        for n, data in files.items():
            self.write(n, data)

    def fs_kwargs(self):
        return {"filesystem": self.fs}

    def base_fs(self):
        return self.fs

    def close(self):
        self.fs.close()


def tempish_names(inp, out):
    names = []
    for base in [inp] + ([out] if out else []):
        names += [base + ".tmp", base + "~", base + ".new", base + ".bak", "." + base + ".swp", base + ".part"]
    return names


def make_dir(kind):
    return MemDir() if kind == "mem" else NativeDir()


def diff_names(before, after):
    """names whose presence or bytes differ between two snapshots"""
    return sorted(n for n in set(before) | set(after) if before.get(n) != after.get(n))


def short(b, n=60):
    if b is None:
        return "<absent>"
    if isinstance(b, str):
        return b
    return repr(b[:n]) + ("... (%d bytes)" % len(b) if len(b) > n else "")


# --------------------------------------------------------------------------------------------------------------
# reference decoding (trusted base: CPython's codecs)


def decode_with(data, encoding, translate=False):
    """Decode the whole byte string the way a text file object does; raises UnicodeDecodeError."""
    return io.TextIOWrapper(io.BytesIO(data), encoding=encoding, newline=None if translate else "").read()


def ref_decode(data, encodings):
    """-> (first encoding of the list under which all of `data` decodes, text with universal newlines, raw text) | None"""
    for e in encodings:
        try:
            raw = decode_with(data, e)
        except UnicodeDecodeError:
            continue
        return e, decode_with(data, e, translate=True), raw
    return None


def can_encode(s, encoding):
    try:
        s.encode(encoding)
        return True
    except UnicodeEncodeError:
        return False


def encodable(s, encoding):
    """
    representable: encodes AND decodes back to the same text.  CPython's cp932 encoder accepts six characters
    (cent, pound, not sign, double vertical line, minus sign, wave dash) that come back as their full-width / look-alike
    forms; such a text cannot be "saved exactly" by anybody, so it is outside the domain.
    """
    try:
        return s.encode(encoding).decode(encoding) == s
    except (UnicodeEncodeError, UnicodeDecodeError):
        return False


def pick(alts, encoding):
    """first alternative the given encoding can represent (the last one is always ASCII)"""
    for a in alts:
        if encodable(a, encoding):
            return a
    raise HarnessError(f"no alternative of {alts!r} is encodable in {encoding}")


# --------------------------------------------------------------------------------------------------------------
# plain-data picture of a simfile


def simfile_class(suffix):
    from simfile.sm import SMSimfile
    from simfile.ssc import SSCSimfile

    return SSCSimfile if suffix == ".ssc" else SMSimfile


def canon(sf):
    """
    Picture of a simfile through its public interface: class name, items in order, charts in order.
    SM chart: six fields + extra components (None and [] are the same "no extra components").
    SSC chart: its items in order with the note item moved last (the documented serialisation order), so two
    pictures are equal iff the simfiles are equal up to the position of the note item inside each chart.
    """
    from simfile.sm import SMChart

    items = [[k, v] for k, v in sf.items()]
    charts = []
    for c in sf.charts:
        if isinstance(c, SMChart):
            charts.append({"sm": [c[k] for k in SIX], "extra": list(c.extradata or [])})
        else:
            its = [[k, v] for k, v in c.items()]
            nk = "NOTES" if ("NOTES" in c or "NOTES2" not in c) else "NOTES2"
            rest = [kv for kv in its if kv[0] != nk]
            last = [kv for kv in its if kv[0] == nk]
            charts.append({"ssc": rest + last})
    return {"cls": type(sf).__name__, "items": items, "charts": charts}


def parse_reference(suffix, text, strict=True):
    """Load `text` with the class the file name selects (C03 covers the loader itself)."""
    return simfile_class(suffix)(string=text, strict=strict)


def _param_components(k, v):
    if v is None:
        return [k]
    if k in MULTI_VALUE:
        return [k] + v.split(":")
    return [k, v]


def emitted_components(c):
    """the component lists a correct serializer is documented to emit for the picture `c`"""
    out = [_param_components(k, v) for k, v in c["items"]]
    for ch in c["charts"]:
        if "sm" in ch:
            f = ch["sm"]
            out.append(["NOTES"] + ["\n     " + str(x) for x in f[:5]] + ["\n" + str(f[5]) + "\n"] + list(ch["extra"]))
        else:
            out.append(["NOTEDATA", ""])
            out.extend(_param_components(k, v) for k, v in ch["ssc"])
    return out


_GAP = re.compile(r"[\r\n][:;\\]*#")


def in_gap(c):
    """msdparser dependency gap (DESIGN 4.1) for the picture `c`; also True for values that are not strings"""
    comps = emitted_components(c)
    for p in comps:
        for x in p:
            if not isinstance(x, str):
                return True
            if "///" in x:
                return True
        if "#" in p[0]:
            return True
    logical = "\n".join(":".join(p) for p in comps)
    return _GAP.search(logical) is not None


def all_strings(c):
    for k, v in c["items"]:
        yield k
        if v is not None:
            yield v
    for ch in c["charts"]:
        if "sm" in ch:
            for x in ch["sm"]:
                yield x
            for x in ch["extra"]:
                yield x
        else:
            for k, v in ch["ssc"]:
                yield k
                if v is not None:
                    yield v


def picture_encodable(c, encoding):
    return all(isinstance(s, str) and encodable(s, encoding) for s in all_strings(c))


def picture_has_bare_cr(c):
    return any(isinstance(s, str) and re.search(r"\r(?!\n)", s) for s in all_strings(c))


def repair_gap(v):
    """keep a generated value out of the dependency gap by construction (also at the very start of the value)"""
    v = re.sub(r"((?:^|[\r\n])[:;\\]*)#", r"\1_#", v)
    while "///" in v:
        v = v.replace("///", "//_/")
    return v.replace("\r", "")


# --------------------------------------------------------------------------------------------------------------
# edit scripts (plain data) and their interpreter
#
#   ["set", KEY, alts]            sf[KEY] = value           ["del", KEY]            sf.pop(KEY)
#   ["attr", name, alts]          setattr(sf, name, value)  ["delattr", name]       del sf.name (when present)
#   ["none", KEY]                 sf[KEY] = None  (what a key-only parameter loads as)
#   ["chart_add", spec]           append a chart            ["chart_del", i]        del sf.charts[i % n]
#   ["chart_set", i, FIELD, alts] chart[FIELD] = value (SM: one of the six fields, stripped)
#   ["chart_attr", i, name, alts] setattr(chart, name, value)
#   ["chart_extra", i, [alts..]|None]   SM only: chart.extradata
#   ["charts_reverse"]            sf.charts.reverse()       ["charts_assign"]       sf.charts = reversed copy
# `alts` is a list of alternative strings; the interpreter takes the first one the detected encoding can represent.


def _chart_classes():
    from simfile.sm import SMChart
    from simfile.ssc import SSCChart

    return SMChart, SSCChart


def apply_edit(sf, op, encoding):
    SMChart, SSCChart = _chart_classes()
    is_ssc = type(sf).__name__ == "SSCSimfile"
    kind = op[0]
    if kind == "set":
        sf[op[1]] = pick(op[2], encoding)
    elif kind == "del":
        sf.pop(op[1], None)
    elif kind == "attr":
        setattr(sf, op[1], pick(op[2], encoding))
    elif kind == "delattr":
        if getattr(sf, op[1]) is not None or op[1].upper() in sf:
            try:
                delattr(sf, op[1])
            except KeyError:
                pass
    elif kind == "none":
        if op[1] not in MULTI_VALUE:
            sf[op[1]] = None
    elif kind == "chart_add":
        spec = op[1]
        if is_ssc:
            ch = SSCChart()
            notes_key = "NOTES2" if spec.get("notes2") else "NOTES"
            order = list(spec.get("order") or [])
            fields = {k: pick(spec["fields"][k], encoding) for k in spec["fields"]}
            keys = [k for k in order if k in fields] + [k for k in fields if k not in order]
            for k in keys:
                ch[notes_key if k == "NOTES" else k] = fields[k]
            if "NOTES" not in fields:
                ch[notes_key] = ""
        else:
            ch = SMChart.blank()
            for k in spec["fields"]:
                if k in SIX:
                    ch[k] = pick(spec["fields"][k], encoding).strip()
            if spec.get("extra"):
                ch.extradata = [pick(a, encoding) for a in spec["extra"]]
        sf.charts.append(ch)
    elif kind == "chart_del":
        if len(sf.charts):
            del sf.charts[op[1] % len(sf.charts)]
    elif kind == "chart_set":
        if len(sf.charts):
            ch = sf.charts[op[1] % len(sf.charts)]
            v = pick(op[3], encoding)
            key = op[2]
            if isinstance(ch, SMChart):
                if key in SIX:
                    ch[key] = v.strip()
            else:
                if key == "NOTES" and "NOTES" not in ch and "NOTES2" in ch:
                    key = "NOTES2"
                ch[key] = v
    elif kind == "chart_attr":
        if len(sf.charts):
            ch = sf.charts[op[1] % len(sf.charts)]
            v = pick(op[3], encoding)
            if isinstance(ch, SMChart):
                v = v.strip()
            if hasattr(type(ch), op[2]):
                setattr(ch, op[2], v)
    elif kind == "chart_extra":
        if len(sf.charts):
            ch = sf.charts[op[1] % len(sf.charts)]
            if isinstance(ch, SMChart):
                ch.extradata = None if op[2] is None else [pick(a, encoding) for a in op[2]]
    elif kind == "chart_extra_inplace":
        # edit the live extradata list of an SM chart in place (append / replace the first component / drop the last)
        if len(sf.charts):
            ch = sf.charts[op[1] % len(sf.charts)]
            if isinstance(ch, SMChart):
                v = pick(op[3], encoding)
                if ch.extradata is None:
                    ch.extradata = [v]
                elif op[2] == "append" or not ch.extradata:
                    ch.extradata.append(v)
                elif op[2] == "set0":
                    ch.extradata[0] = v
                else:
                    ch.extradata.pop()
    elif kind == "charts_reverse":
        sf.charts.reverse()
    elif kind == "charts_assign":
        sf.charts = list(reversed(list(sf.charts)))
    else:
        raise HarnessError(f"unknown edit operation {op!r}")


# --------------------------------------------------------------------------------------------------------------
# recording / fault-injecting filesystem wrapper


class Fault(OSError):
    """the injected failure"""


class Plan:
    """
    Shared between a wrapper filesystem and the files it hands out.  `log` is the sequence of calls seen so far as
    (operation, file name, payload length); the call with index `at` fails (variant "partial": a write stores the first
    half of its payload before failing; a failing close still closes the underlying file, i.e. the error is reported
    late).  `completed` lists the names of files whose close returned normally before the injected failure.
    """

    def __init__(self, at=None, variant="before"):
        self.at = at
        self.variant = variant
        self.log = []
        self.completed = []
        self.fired = False
        self.fault = None

    def hit(self, op, name, size=0):
        idx = len(self.log)
        self.log.append((op, name, size))
        if self.at is not None and idx == self.at:
            self.fired = True
            self.fault = Fault(f"injected failure at call {idx}: {op} {name} ({self.variant})")
            return True
        return False


class WriteProxy:
    """file object handed to the library for a file opened for writing"""

    def __init__(self, real, plan, name):
        self._real = real
        self._plan = plan
        self._name = name
        self._closed = False

    def write(self, data):
        if self._plan.hit("write", self._name, len(data)):
            if self._plan.variant == "partial":
                self._real.write(data[: len(data) // 2])
            raise self._plan.fault
        return self._real.write(data)

    def writelines(self, lines):
        for line in lines:
            self.write(line)

    def flush(self):
        if self._plan.hit("flush", self._name):
            raise self._plan.fault
        return self._real.flush()

    def close(self):
        if self._closed:
            return
        self._closed = True
        failing = self._plan.hit("close", self._name)
        self._real.close()
        if failing:
            raise self._plan.fault
        if not self._plan.fired:  # a close that merely cleans up after the injected failure completes nothing
            self._plan.completed.append(self._name)

    def __enter__(self):
        return self

    def __exit__(self, *exc):
        self.close()
        return False

    def __getattr__(self, attr):
        return getattr(self._real, attr)


def _is_write_mode(mode):
    return any(ch in mode for ch in "wax+")


def _mode_of(args, kwargs):
    if args:
        return args[0]
    return kwargs.get("mode", "r")


def make_fault_fs(d, plan):
    """A filesystem for `filesystem=` that behaves like the directory's own one but proxies files opened for writing."""
    base = d.base_fs()

    def opener(real_open, kind):
        def _open(path, *args, **kwargs):
            mode = _mode_of(args, kwargs)
            if not _is_write_mode(mode):
                return real_open(path, *args, **kwargs)
            name = d.name_of(path)
            if plan.hit(kind, name):
                raise plan.fault
            return WriteProxy(real_open(path, *args, **kwargs), plan, name)

        return _open

    if d.kind == "mem":
        from fs.wrapfs import WrapFS

        class FaultMemFS(WrapFS):
            def open(self, path, *args, **kwargs):
                return opener(base.open, "open")(path, *args, **kwargs)

            def openbin(self, path, *args, **kwargs):
                return opener(base.openbin, "open")(path, *args, **kwargs)

        return FaultMemFS(base)

    cls = type(base)

    class FaultNativeFS(cls):
        def open(self, path, *args, **kwargs):
            return opener(super().open, "open")(path, *args, **kwargs)

        def openbin(self, path, *args, **kwargs):
            return opener(super().openbin, "open")(path, *args, **kwargs)

    try:
        return FaultNativeFS()
    except TypeError as e:  # the default filesystem's class needs constructor arguments: not something we can wrap
        raise HarnessError(f"cannot instantiate a subclass of the default filesystem class {cls!r}: {e}")


# --------------------------------------------------------------------------------------------------------------
# repertoires

_REP = {}


def repertoire(enc):
    """
    {"all": non-ASCII BMP characters the code page can encode, "hard": those whose encoded form is refused by every
    encoding tried before it in the default order (so that a text containing one is detected as `enc`)}
    """
    if enc in _REP:
        return _REP[enc]
    earlier = MAIN_ENCODINGS[: MAIN_ENCODINGS.index(enc)]
    allc, hard = [], []
    for cp in range(0x80, 0x10000):
        if 0xD800 <= cp < 0xE000:
            continue
        ch = chr(cp)
        try:
            b = ch.encode(enc)
        except UnicodeEncodeError:
            continue
        if b.decode(enc) != ch:
            continue
        if enc != "utf-8":
            allc.append(ch)
        probe = b"#A:" + b + b";\n"
        ok = True
        for e in earlier:
            try:
                probe.decode(e)
                ok = False
                break
            except UnicodeDecodeError:
                pass
        if ok and earlier:
            hard.append(ch)
    if enc == "utf-8":
        allc = [chr(c) for c in (0xE9, 0xDF, 0x3A9, 0x416, 0x30DF, 0x30BD, 0xAC00, 0x20AC, 0xFF90, 0x4E2D, 0x1F3B5, 0x10348, 0xFEFF, 0x85, 0x2028, 0x3000)]
        hard = list(allc)
    _REP[enc] = {"all": allc, "hard": hard}
    return _REP[enc]


def unencodable_char(encoding):
    """a character the encoding cannot represent (re-verified with str.encode); None if there is none"""
    for ch in ("\u30df", "\u00e9", "\uac00", "\u20ac", "\udc80"):
        if not can_encode(ch, encoding):
            return ch
    return None


# --------------------------------------------------------------------------------------------------------------
# Hypothesis strategies: small MSD documents over one encoding's repertoire, edit scripts


def _st():
    from hypothesis import strategies as st

    return st


ASCII_PLAIN = list("abcXYZ019 _-.,=!")
ASCII_META = [":", ";", "\\", "/", "//", "#", "\n", " \n", "\n ", ":\n", "\\#", "/ /"]


def s_text(enc, max_size=8, meta=True):
    """text whose characters the encoding `enc` can represent; no carriage return; kept out of the dependency gap"""
    st = _st()
    rep = repertoire(enc)
    pools = [st.sampled_from(ASCII_PLAIN), st.sampled_from(ASCII_PLAIN)]
    if meta:
        pools.append(st.sampled_from(ASCII_META))
    if enc == "utf-8":
        pools.append(st.sampled_from(rep["all"]))
        pools.append(st.characters(blacklist_categories=("Cs",), blacklist_characters="\r"))
    else:
        pools.append(st.sampled_from(rep["all"]))
        pools.append(st.sampled_from(rep["all"]))
        if rep["hard"]:
            pools.append(st.sampled_from(rep["hard"]))
    return st.lists(st.one_of(*pools), max_size=max_size).map(lambda parts: repair_gap("".join(parts)))


def s_alts(max_size=6, meta=True):
    """alternative spellings of one value: richest first, plain ASCII last"""
    st = _st()

    @st.composite
    def build(draw):
        order = draw(st.permutations(MAIN_ENCODINGS))
        n = draw(st.integers(0, 3))
        alts = [draw(s_text(e, max_size, meta)) for e in order[:n]]
        alts.append(repair_gap("".join(draw(st.lists(st.sampled_from(ASCII_PLAIN + ([":", ";", "\n", "\\", "//", "#"] if meta else [])), max_size=max_size)))))
        return alts

    return build()


KEY_SPELLINGS = [
    "TITLE", "title", "Title", "SUBTITLE", "ARTIST", "artist", "CREDIT", "MUSIC", "BANNER", "OFFSET", "BPMS", "STOPS",
    "FREEZES", "BGCHANGES", "ANIMATIONS", "ATTACKS", "DISPLAYBPM", "displaybpm", "GENRE", "K0", "k1", "FOO BAR",
    "SELECTABLE", "K0", "TITLE",
    # keys that need MSD escaping themselves (written escaped in the file, unescaped in the loaded simfile)
    "CREDIT\\:URL", "A\\;B", "K\\\\0", "K\\//X", "URL\\:", "credit\\:url",
]
EDIT_KEYS = ["TITLE", "ARTIST", "SUBTITLE", "K0", "K1", "NEWKEY", "CREDIT", "MUSIC", "ATTACKS", "DISPLAYBPM", "GENRE", "BPMS", "FOO BAR",
             "CREDIT:URL", "A;B", "K\\0", "K//X", "URL:"]
EDIT_ATTRS = ["title", "artist", "subtitle", "credit", "music", "bpms", "offset", "stops", "bgchanges", "displaybpm", "attacks"]
SSC_CHART_KEYS = ["CHARTNAME", "STEPSTYPE", "DESCRIPTION", "CHARTSTYLE", "DIFFICULTY", "METER", "RADARVALUES", "CREDIT", "OFFSET", "BPMS", "ATTACKS", "DISPLAYBPM", "CK"]
CHART_ATTRS = ["stepstype", "description", "difficulty", "meter", "radarvalues", "notes"]
NOTE_TEXTS = ["0000\n0000\n0000\n0000", "1000\n0100\n0010\n0001\n,\n0000\n0000\n0000\n0000", "", "0", "M0L1\n2003", "00\n11"]


def esc(v, eol):
    v = v.replace("\\", "\\\\").replace(":", "\\:").replace(";", "\\;").replace("//", "\\//")
    return v.replace("\n", eol)


def s_document(enc, suffix, keyonly=True, stray=False, max_props=5, max_charts=2):
    """
    -> text of a small SM/SSC document whose characters `enc` can represent.  Keys are ASCII (keys are upper-cased
    on loading and the upper-case form of a letter need not exist in a code page: cp1252 has 'µ' but not 'Μ').
    """
    st = _st()

    @st.composite
    def build(draw):
        eol = draw(st.sampled_from(["\n", "\n", "\r\n"]))
        val = s_text(enc)
        stray_text = st.text(alphabet=st.sampled_from(list("abc xyz.,-")), min_size=1, max_size=5)

        def param(key, comps, terminated=True, glue=False):
            s = "#" + key + "".join(":" + esc(c, eol) for c in comps)
            if terminated:
                return s + ";" + ("" if glue else eol)
            return s + eol

        def a_param(pool):
            key = draw(st.sampled_from(pool))
            mode = draw(st.integers(0, 9))
            if mode == 0 and keyonly:
                comps = []
            elif mode == 1 or key.upper() in MULTI_VALUE:
                comps = [draw(val) for _ in range(draw(st.integers(1, 3)))]
                if len(comps) > 1 and draw(st.integers(0, 3)) == 0:
                    comps[0] = ""  # an empty first component followed by more ("#DISPLAYBPM::180;")
            else:
                comps = [draw(val)]
            terminated = draw(st.integers(0, 7)) != 0
            glue = draw(st.integers(0, 9)) == 0
            return param(key, comps, terminated, glue)

        def filler():
            k = draw(st.integers(0, 11))
            if k == 0:
                return "// " + draw(st.text(alphabet=st.sampled_from(list("abc #:;")), max_size=6)) + eol
            if k == 1:
                return eol
            if k == 2:
                return "  " + eol
            if k == 3 and stray:
                return draw(stray_text) + eol
            return ""

        out = []
        if enc == "utf-8" and draw(st.integers(0, 7)) == 0:
            out.append("\ufeff")
        if stray and draw(st.integers(0, 3)) == 0:
            out.append(draw(stray_text) + eol)
        if suffix == ".ssc" and draw(st.integers(0, 9)) != 0:
            out.append(param("VERSION", ["0.83"]))
        for _ in range(draw(st.integers(0, max_props))):
            out.append(filler())
            out.append(a_param(KEY_SPELLINGS))
        for _ in range(draw(st.integers(0, max_charts))):
            out.append(filler())
            notes = draw(st.sampled_from(NOTE_TEXTS))
            if suffix == ".sm":
                fields = ["dance-single", draw(val), draw(st.sampled_from(["Beginner", "Hard", "Edit"])), draw(st.sampled_from(["1", "12", "x"])), "0.1,0.2"]
                comps = ["\n     " + f for f in fields] + ["\n" + notes + "\n"]
                for _ in range(draw(st.sampled_from([0, 0, 0, 1, 2]))):
                    comps.append(draw(val))
                key = draw(st.sampled_from(["NOTES", "NOTES", "notes"]))
                # the separators of a NOTES parameter are real colons: field texts are escaped one by one
                out.append("#" + key + "".join(":" + esc(c, eol) for c in comps) + ";" + eol)
            else:
                out.append(param(draw(st.sampled_from(["NOTEDATA", "NOTEDATA", "notedata"])), [""]))
                for _ in range(draw(st.integers(0, 4))):
                    out.append(a_param(SSC_CHART_KEYS + ["stepstype", "Meter", "CK\\:1", "C\\;K"]))
                nk = draw(st.sampled_from(["NOTES", "NOTES", "NOTES", "NOTES2", "notes"]))
                if keyonly and draw(st.integers(0, 11)) == 0:
                    out.append(param(nk, []))
                else:
                    out.append(param(nk, ["\n" + notes + "\n" if draw(st.booleans()) else notes]))
                if draw(st.integers(0, 5)) == 0:
                    out.append(a_param(["CREDIT", "CK", "DESCRIPTION"]))  # a parameter after the note data stays in the chart
        out.append(filler())
        text = "".join(out)
        if not text.endswith(("\n",)):
            text += eol
        return text

    return build()


def s_script(suffix, max_ops=4, none_values=True):
    st = _st()
    alts = s_alts()
    plain_alts = s_alts(meta=False)
    idx = st.integers(0, 3)
    note_alts = st.sampled_from(NOTE_TEXTS).map(lambda n: [n])

    def chart_spec():
        if suffix == ".ssc":
            return st.fixed_dictionaries(
                {
                    "fields": st.dictionaries(st.sampled_from(SSC_CHART_KEYS + ["NOTES"]), st.one_of(alts, st.just([""])), max_size=5),
                    "notes2": st.integers(0, 4).map(lambda x: x == 0),
                    "order": st.permutations(SSC_CHART_KEYS[:6] + ["NOTES"]).map(list),
                }
            )
        return st.fixed_dictionaries(
            {
                "fields": st.dictionaries(st.sampled_from(SIX), st.one_of(alts, st.just([""])), max_size=4),
                "extra": st.one_of(st.none(), st.lists(alts, min_size=1, max_size=2)),
            }
        )

    ops = [
        st.tuples(st.just("set"), st.sampled_from(EDIT_KEYS), alts),
        st.tuples(st.just("set"), st.sampled_from(EDIT_KEYS), st.sampled_from([[""], ["a"], ["0"]])),
        # multi-value properties whose first component is empty (the value starts with a colon)
        st.tuples(st.just("set"), st.sampled_from(list(MULTI_VALUE)), st.sampled_from([[":180"], [":a:b"], ["::"], [":"]])),
        st.tuples(st.just("del"), st.sampled_from(EDIT_KEYS)),
        st.tuples(st.just("attr"), st.sampled_from(EDIT_ATTRS), alts),
        st.tuples(st.just("delattr"), st.sampled_from(EDIT_ATTRS)),
        st.tuples(st.just("chart_add"), chart_spec()),
        st.tuples(st.just("chart_del"), idx),
        st.tuples(st.just("chart_set"), idx, st.sampled_from(list(SIX[:5]) + (SSC_CHART_KEYS + ["CK:1", "C;K", "C//K"] if suffix == ".ssc" else [])), alts),
        st.tuples(st.just("chart_set"), idx, st.just("NOTES"), note_alts),
        st.tuples(st.just("chart_attr"), idx, st.sampled_from(CHART_ATTRS[:5]), plain_alts),
        st.tuples(st.just("charts_reverse")),
        st.tuples(st.just("charts_assign")),
    ]
    if suffix == ".sm":
        ops.append(st.tuples(st.just("chart_extra"), idx, st.one_of(st.none(), st.lists(alts, min_size=1, max_size=2))))
        ops.append(st.tuples(st.just("chart_extra_inplace"), idx, st.sampled_from(["append", "append", "set0", "pop"]), alts))
    if none_values:
        ops.append(st.tuples(st.just("none"), st.sampled_from([k for k in EDIT_KEYS if k not in MULTI_VALUE])))
    return st.lists(st.one_of(*ops).map(list), max_size=max_ops)
