"""
The msdparser escaping gap (DESIGN.md 4.1): which serialised component sequences do not read back, because of
the dependency's escaping (not this repository's code), and how generators keep their values out of it.

Three ways (all in msdparser 2.0.0):
 1. a '#' inside a parameter is re-read as the start of a new parameter when the most recent TEXT token ends in a
    line break; ESCAPE tokens (for ':', ';', '\\') and ':' separators are not TEXT tokens, so the line break is
    seen through them, through a key made only of them (or an empty key), and through the line break the serializer
    writes after the previous parameter;
 2. a run of three or more '/' serialises to an escaped '/' followed by a comment;
 3. a '#' anywhere in a key.

`in_gap(params)` is the exact predicate over the sequence of component lists the serializer is expected to emit.
The repair functions are context-free (per string / per key-value pair), so that any sequence of edits stays outside
the gap; `in_gap` is still evaluated by the checkers as a guard and leftovers are counted as excluded.
"""
import re

MULTI = ("ATTACKS", "DISPLAYBPM")

_CHAIN_HASH = re.compile(r"[\r\n][:;\\]*#")
_START_HASH = re.compile(r"[:;\\]*#")
_KEY_OPEN = re.compile(r"(?:^|[\r\n])[:;\\]*\Z")


def in_gap(params):
    """params: list of component lists (key first), in emission order"""
    logical = "\n".join(":".join(p) for p in params)
    if _CHAIN_HASH.search(logical):
        return True
    if any("///" in c for p in params for c in p):
        return True
    if any("#" in p[0] for p in params):
        return True
    return False


def safe_text(s):
    """rules 1 (inside one string) and 2"""
    if s is None:
        return None
    while "///" in s:
        s = s.replace("///", "//_/")
    prev = None
    while prev != s:
        prev = s
        s = _CHAIN_HASH.sub(lambda m: m.group(0)[:-1] + "_#", s)
    return s


def safe_key(k):
    return safe_text(k.replace("#", ""))


def key_is_open(k):
    """True if a line break can be seen through the whole key (empty, made of ':;\\' only, or ending in such a run
    after a line break) - then the value must not start with a '#' (possibly behind ':;\\')"""
    return _KEY_OPEN.search(k) is not None


def safe_start(v):
    """for strings that are always preceded by a line break in the emission (SM note data, extra components)"""
    if v is not None and _START_HASH.match(v):
        return "_" + v
    return v


def safe_pair(k, v):
    k = safe_key(k)
    v = safe_text(v)
    if v is not None and key_is_open(k):
        v = safe_start(v)
    return k, v


def was_repaired(before, after):
    return before != after


# ---------------------------------------------------------------------------------------------
# expected emissions


def item_components(k, v):
    if v is None:
        return [k]
    if k in MULTI:
        return [k] + v.split(":")
    return [k, v]


def emission_sm(items, charts):
    """items: [[k, v]], charts: [{"fields": [6], "extra": [...]|None}]"""
    out = [item_components(k, v) for k, v in items]
    for c in charts:
        f = c["fields"]
        out.append(["NOTES"] + ["\n     " + str(x) for x in f[:5]] + ["\n" + str(f[5]) + "\n"] + list(c.get("extra") or []))
    return out


def ssc_notes_key(chart_items):
    keys = [k for k, _ in chart_items]
    if "NOTES" in keys:
        return "NOTES"
    if "NOTES2" in keys:
        return "NOTES2"
    return None


def emission_ssc(items, charts):
    """charts: [[[k, v], ...]] ; the note item (NOTES, or NOTES2 when NOTES is absent) is written last"""
    out = [item_components(k, v) for k, v in items]
    for ci in charts:
        out.append(["NOTEDATA", ""])
        nk = ssc_notes_key(ci)
        for k, v in ci:
            if k != nk:
                out.append(item_components(k, v))
        if nk is not None:
            out.append(item_components(nk, dict((k, v) for k, v in ci)[nk]))
    return out
