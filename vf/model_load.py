"""
Reference loader (DESIGN.md C03): the documented loading rules applied to the MSD parameters the trusted tokenizer
(msdparser.parse_msd) yields, consumed lazily so that the first error wins in document order.

Result: ("ok", fmt, items, charts)  or  ("err", "MSDParserError" | "ValueError")
  items  : [[KEY, value|None], ...]
  charts : SM  -> [{"fields": [6 stripped], "extra": [...]|None}]
           SSC -> [[[KEY, value|None], ...], ...]
"""
MULTI = ("ATTACKS", "DISPLAYBPM")


def _set(items, k, v):
    for it in items:
        if it[0] == k:
            it[1] = v
            return
    items.append([k, v])


def _value(key, p):
    if len(p.components) == 1:
        return None  # "a key-only parameter has no value" - whatever its key
    if key in MULTI:
        return ":".join(p.components[1:])
    return p.components[1]


def format_for_name(name):
    """documented rule: by file name suffix, case-insensitive; None = decide by the first parameter"""
    low = name.lower()
    if low.endswith(".ssc"):
        return "ssc"
    if low.endswith(".sm"):
        return "sm"
    return None


def ref_load(text, strict, fmt=None):
    from msdparser import MSDParserError, parse_msd

    try:
        params = parse_msd(string=text, ignore_stray_text=not strict)
        items, charts, cur = [], [], None
        first = True
        for p in params:
            key = p.key.upper()
            if first:
                first = False
                if fmt is None:
                    fmt = "ssc" if key == "VERSION" else "sm"
            if fmt == "sm":
                if key == "NOTES":
                    comps = list(p.components[1:])
                    if len(comps) < 6:
                        return ("err", "ValueError")
                    charts.append({"fields": [c.strip() for c in comps[:6]], "extra": (comps[6:] or None)})
                else:
                    _set(items, key, _value(key, p))
            else:
                if key == "NOTEDATA":
                    cur = []
                    charts.append(cur)
                elif cur is not None:
                    _set(cur, key, _value(key, p))
                else:
                    _set(items, key, _value(key, p))
        if fmt is None:
            fmt = "sm"
        return ("ok", fmt, items, charts)
    except MSDParserError:
        return ("err", "MSDParserError")
    except AssertionError:
        # msdparser's internal assertion on a text ending in an unpaired backslash (known finding of the dependency)
        return ("err", "tokenizer-assertion")


def ref_ssc_chart(text, strict):
    """SSCChart.from_str: first parameter must be NOTEDATA; parsing ends at the NOTES / NOTES2 parameter"""
    from msdparser import MSDParserError, parse_msd

    try:
        params = parse_msd(string=text, ignore_stray_text=not strict)
        items = []
        first = True
        for p in params:
            key = p.key.upper()
            if first:
                first = False
                if key != "NOTEDATA":
                    return ("err", "ValueError")
                continue
            _set(items, key, _value(key, p))
            if key in ("NOTES", "NOTES2"):
                break
        if first:
            return ("err", "empty")
        return ("ok", items)
    except MSDParserError:
        return ("err", "MSDParserError")


def observe(fn):
    """run a loading call; picture of the result in the reference's vocabulary"""
    from msdparser import MSDParserError
    from simfile.sm import SMSimfile
    from simfile.ssc import SSCSimfile

    try:
        s = fn()
    except MSDParserError:
        return ("err", "MSDParserError")
    except ValueError:
        return ("err", "ValueError")
    if isinstance(s, SSCSimfile):
        fmt = "ssc"
        charts = [[[k, v] for k, v in c.items()] for c in s.charts]
    elif isinstance(s, SMSimfile):
        fmt = "sm"
        charts = [
            {"fields": [c[k] for k in ("STEPSTYPE", "DESCRIPTION", "DIFFICULTY", "METER", "RADARVALUES", "NOTES")], "extra": (list(c.extradata) if c.extradata else None)}
            for c in s.charts
        ]
    else:
        return ("other", type(s).__name__)
    return ("ok", fmt, [[k, v] for k, v in s.items()], charts)
