"""
Shared pieces for the conversion properties C16 (SM -> SSC) and C17 (SSC -> SM):

* plain-data *specs* of SM / SSC simfiles and charts and the builders that turn a spec into the real object
  through the public API only (blank()/empty constructor, item assignment, deletion, charts.append);
* snapshots (plain data read back from an object through the public mapping interface);
* the msdparser escaping-gap predicate and repair (DESIGN.md 4.1; self-contained copy, to be merged with
  vf/msdgap.py);
* small Hypothesis strategies: adversarial text, keys, timing lists, note data.

Spec formats (all JSON-serialisable)
  SM simfile   {"base": "blank"|"empty", "del": [key...], "props": [[key, value|None]...],
                "charts": [{"fields": [six strings], "extra": [str...]|None}...]}
  SM chart     {"fields": [six strings], "extra": [str...]|None}
  SSC simfile  {"base": "blank"|"empty", "del": [...], "props": [[key, value|None]...], "charts": [SSC chart...]}
  SSC chart    {"base": "blank"|"empty", "del": [...], "items": [[key, value|None]...]}
"base" is the object the edits start from: Class.blank() or the empty object Class(string="") / SSCChart().
"del" keys are removed first (absent ones are skipped), then "props"/"items" are assigned in order.
"""
import re

from hypothesis import strategies as st

SIX = ("STEPSTYPE", "DESCRIPTION", "DIFFICULTY", "METER", "RADARVALUES", "NOTES")
MULTI = ("ATTACKS", "DISPLAYBPM")

# --------------------------------------------------------------------------------------
# builders / snapshots (public API only)


def build_sm_chart(spec):
    from simfile.sm import SMChart

    return SMChart.from_msd(list(spec["fields"]) + list(spec.get("extra") or []))


def build_sm(spec):
    from simfile.sm import SMSimfile

    sm = SMSimfile.blank() if spec.get("base") == "blank" else SMSimfile(string="")
    for k in spec.get("del") or []:
        if k in sm:
            del sm[k]
    for k, v in spec.get("props") or []:
        sm[k] = v
    for c in spec.get("charts") or []:
        sm.charts.append(build_sm_chart(c))
    return sm


def build_ssc_chart(spec):
    from simfile.ssc import SSCChart

    ch = SSCChart.blank() if spec.get("base") == "blank" else SSCChart()
    for k in spec.get("del") or []:
        if k in ch:
            del ch[k]
    for k, v in spec.get("items") or []:
        ch[k] = v
    return ch


def build_ssc(spec):
    from simfile.ssc import SSCSimfile

    ssc = SSCSimfile.blank() if spec.get("base") == "blank" else SSCSimfile(string="")
    for k in spec.get("del") or []:
        if k in ssc:
            del ssc[k]
    for k, v in spec.get("props") or []:
        ssc[k] = v
    for c in spec.get("charts") or []:
        ssc.charts.append(build_ssc_chart(c))
    return ssc


def snap_sm(sm):
    """plain data of an SM simfile: (pairs, [(six fields, extradata)...])"""
    return (
        [(k, v) for k, v in sm.items()],
        [([c[k] for k in SIX], list(c.extradata) if c.extradata else []) for c in sm.charts],
    )


def snap_ssc(ssc):
    return ([(k, v) for k, v in ssc.items()], [[(k, v) for k, v in c.items()] for c in ssc.charts])


# --------------------------------------------------------------------------------------
# msdparser escaping gap (DESIGN.md 4.1)

_GAP = re.compile(r"[\r\n][:;\\]*#")
_GAP_INNER = re.compile(r"([\r\n][:;\\]*)#")
_ARMED_KEY = re.compile(r"(?:^|[\r\n])[:;\\]*\Z")
_HASH_HEAD = re.compile(r"[:;\\]*#")


def ssc_emission(props, charts):
    """Component lists the SSC serializer is expected to emit for (pairs, [chart pairs...])."""
    out = []

    def one(k, v):
        if v is None:
            return [k]
        if k in MULTI:
            return [k] + v.split(":")
        return [k, v]

    for k, v in props:
        out.append(one(k, v))
    for items in charts:
        out.append(["NOTEDATA", ""])
        keys = [k for k, _ in items]
        nk = "NOTES" if "NOTES" in keys or "NOTES2" not in keys else "NOTES2"
        for k, v in items:
            if k != nk:
                out.append(one(k, v))
        for k, v in items:
            if k == nk:
                out.append(one(k, v))
    return out


def in_gap(params):
    """True iff the emitted parameters fall into the dependency's escaping gap."""
    for comps in params:
        if "#" in comps[0]:
            return True
        for c in comps:
            if "///" in c:
                return True
    logical = "\n".join(":".join(c) for c in params)
    return _GAP.search(logical) is not None


def repair_text(s):
    """Remove the context-free gap shapes from one string: '#' after a line break (directly or through ':', ';',
    '\\') and runs of three or more '/'.  Returns (string, repaired?)."""
    if s is None:
        return s, False
    t = s
    while True:
        u = _GAP_INNER.sub(lambda m: m.group(1) + "_#", t)
        u = u.replace("///", "//_/")
        if u == t:
            break
        t = u
    return t, t != s


def repair_key(k):
    t, _ = repair_text(k.replace("#", ""))
    return t, t != k


def repair_pair(k, v):
    """The context-dependent shape: a value that starts with '#' (possibly behind ':', ';', '\\') is re-read as a new
    parameter when the key lets the preceding line break show through (empty key, key made of ':;\\' only, key
    ending in a line break).  Returns (value, repaired?)."""
    if isinstance(v, str) and k not in MULTI and _HASH_HEAD.match(v) and _ARMED_KEY.search(k):
        return "_" + v, True
    return v, False


# --------------------------------------------------------------------------------------
# strategies

ADV = ["A", "B", "0", "_", " ", ":", ";", "\\", "/", "//", "\n", "\r", "#", "=", ",", "\n#", "É", "ミ", "///", ":#"]
KEY_ALPHABET = ["A", "B", "0", "_", " ", ":", ";", "\\", "/", "//", "\n", "É", "ミ", "#"]


def _pool(atoms, n_long):
    """deterministic pool of strings over `atoms`: every string of up to two atoms and a spread of longer ones"""
    import itertools

    out = [""]
    out += list(atoms)
    out += [a + b for a in atoms for b in atoms]
    k = len(atoms)
    x = 12345
    for i in range(n_long):
        x = (x * 1103515245 + 12345) % (2**31)  # fixed LCG: the pool is a constant, not run-time randomness
        n = 3 + (x >> 8) % 3
        y = x
        parts = []
        for _ in range(n):
            y = (y * 1103515245 + 12345) % (2**31)
            parts.append(atoms[(y >> 8) % k])
        out.append("".join(parts))
    return out


_SPECIAL_VALUES = [
    "", "", "0", "1", "a", "x", ":", "#", "\n", " ", "song.ogg", "Hello World", "1.5", "0.000=Song Start", "#hash",
    "a\n#b", "C:\\dir\\f.png", "x//y", "\n#", "///", "é", "ミク", "\u2028", "\x00", "a;b", "\\", "\\#", ";#x", ":#x",
]
VALUE_POOL = _pool(ADV, 1500) + _SPECIAL_VALUES * 8
KEY_POOL = _pool(KEY_ALPHABET, 300)


def adv_text(max_size=5):
    return st.sampled_from(VALUE_POOL)


_SHORT = ["", "", "0", "1", "a", ":", "#", "\n", " ", ";", "\\", "/", "x"]


def value(allow_none=True):
    """a property value: None / empty / one character (interned by CPython), the adversarial pool, arbitrary Unicode.
    Hypothesis favours small indices of long sampled_from lists, so the interesting short values get a list of
    their own."""
    short = ([None, None] if allow_none else []) + _SHORT
    return st.one_of(
        st.sampled_from(short),
        st.sampled_from(VALUE_POOL),
        st.sampled_from(VALUE_POOL),
        st.text(alphabet=st.characters(blacklist_categories=("Cs",)), max_size=4),
    )


def odd_key():
    """keys over the adversarial alphabet (upper() is the identity on every atom)"""
    return st.sampled_from(KEY_POOL)


def tick_list(values, max_size=3, first_zero=False, max_tick=200 * 48):
    """well-formed timing list: tick-aligned beats with three decimals '=' a decimal value"""

    @st.composite
    def _s(draw):
        ks = draw(st.lists(st.integers(1 if first_zero else 0, max_tick), max_size=max_size, unique=True))
        ks.sort()
        if first_zero:
            ks = [0] + ks
        sep = draw(st.sampled_from([",", ",\n", ", "]))
        return sep.join(f"{k / 48:.3f}={draw(values)}" for k in ks)

    return _s()


BPM_VALUES = st.sampled_from(["120.000", "60", "133.333", "0.5", "2000", "150.000000", "90.5"])
PAUSE_VALUES = st.sampled_from(["0.500", "1", "0.001", "2.250", "10", "0.100000"])
WARP_VALUES = st.sampled_from(["0.250", "1.000", "4.000", "0.500"])
OFFSETS = st.sampled_from(["0", "0.000000", "-0.009", "1.5", "-12.250", "0.033", ""])


def bpms():
    return tick_list(BPM_VALUES, first_zero=True)


def stops():
    return tick_list(PAUSE_VALUES)


def warps():
    return tick_list(WARP_VALUES, max_size=2)


NOTE_CHARS = "0000000001111234MLFKA"


@st.composite
def notedata(draw):
    """small well-formed note data (its own strip()), optionally routine (&) and keysounded"""
    cols = draw(st.sampled_from([1, 1, 2, 4, 4, 6, 8]))
    players = draw(st.sampled_from([1, 1, 1, 2]))
    shape = draw(st.lists(st.sampled_from([1, 2, 3, 4, 4, 8, 12]), min_size=players, max_size=players + 2))
    total = sum(shape) * cols
    cells = list(draw(st.text(alphabet=NOTE_CHARS, min_size=total, max_size=total)))
    if draw(st.integers(0, 3)) == 0:
        for pos, num in draw(st.lists(st.tuples(st.integers(0, total - 1), st.integers(0, 99)), max_size=3)):
            if cells[pos] != "0" and "[" not in cells[pos]:
                cells[pos] += "[%d]" % num
    measures, at = [], 0
    for rows in shape:
        lines = []
        for _ in range(rows):
            lines.append("".join(cells[at : at + cols]))
            at += cols
        measures.append("\n".join(lines))
    # distribute the measures over the players: the first players-1 sections get one measure each
    sections = [[m] for m in measures[: players - 1]] + [measures[players - 1 :]]
    return "\n&\n".join("\n,\n".join(sec) for sec in sections)
