"""
Shared machinery: verdicts, case runner, sharding, evidence and replay writers.

Vocabulary
----------
case      plain JSON-serialisable data describing one generated input / history / fault plan
check     pure function  case -> Verdict  (builds the real objects through the public API,
          evaluates the oracle).  Hypothesis only ever wraps `check`.
shard     one of N worker processes; shard k derives its Hypothesis seed from (VERIF_SEED, k)
"""
import hashlib
import json
import os
import sys
import time
import traceback
import collections

HERE = os.path.dirname(os.path.abspath(__file__))
VERIF_ROOT = os.path.dirname(HERE)
REPO_ROOT = os.path.abspath(os.environ.get("VERIF_REPO_ROOT", "/repo"))

NSHARDS = int(os.environ.get("VERIF_SHARDS", "16"))


class Violation(Exception):
    """Raised by a checker when the oracle disagrees with the code under test."""


class HarnessError(Exception):
    """Something is wrong with the machinery itself (never reported as a violation)."""


class Verdict:
    __slots__ = ("ok", "msg", "nontrivial", "labels", "excluded", "evals", "key", "weight")

    def __init__(self, ok=True, msg=None, nontrivial=False, labels=(), excluded=None, evals=1, key=None, weight=1):
        self.ok = ok
        self.msg = msg
        self.nontrivial = nontrivial
        self.labels = tuple(labels)
        self.excluded = excluded  # reason string when the case lies outside the property's domain
        self.evals = evals  # oracle evaluations inside this case (probes, fault points, ...)
        self.key = key  # optional explicit identity for the distinct count
        self.weight = weight  # enumerated parts: distinct non-trivial items bundled in this case


def jdump(obj):
    return json.dumps(obj, sort_keys=True, ensure_ascii=True, separators=(",", ":"), default=_default)


def _default(o):
    if isinstance(o, (set, frozenset)):
        return sorted(o)
    if isinstance(o, tuple):
        return list(o)
    if isinstance(o, bytes):
        return {"__bytes__": o.hex()}
    raise TypeError(type(o))


def case_hash(case):
    return int.from_bytes(hashlib.blake2b(jdump(case).encode(), digest_size=8).digest(), "big")


def derive_seed(seed, shard, salt=0):
    h = hashlib.blake2b(f"{seed}:{shard}:{salt}".encode(), digest_size=8).digest()
    return int.from_bytes(h, "big") % (2**63)


def is_library_exception(exc):
    """True if the traceback passes through the package under test."""
    root = os.path.join(REPO_ROOT, "simfile") + os.sep
    tb = exc.__traceback__
    while tb is not None:
        fn = os.path.abspath(tb.tb_frame.f_code.co_filename)
        if fn.startswith(root):
            return True
        tb = tb.tb_next
    return False


def run_check(mod, case):
    """Run mod.check(case); map exceptions to verdicts.  Returns Verdict."""
    try:
        v = mod.check(case)
        if v is None:
            v = Verdict()
        return v
    except Violation as e:
        return Verdict(ok=False, msg=str(e))
    except (KeyboardInterrupt, SystemExit, GeneratorExit):
        raise
    except RecursionError as e:
        # unbounded recursion inside the library on a finite input is the library's failure; anywhere else it is ours
        if not is_library_exception(e):
            raise
        notes = "; ".join(getattr(e, "__notes__", [])[:2])
        return Verdict(ok=False, msg=f"unexpected RecursionError from the library: {e}; {notes[:600]}")
    except BaseException as e:  # noqa
        if is_library_exception(e):
            tb = "".join(traceback.format_exception(type(e), e, e.__traceback__)[-6:])
            return Verdict(ok=False, msg=f"unexpected {type(e).__name__} from the library: {e}\n{tb}")
        raise HarnessError("checker crashed outside the library:\n" + traceback.format_exc()) from e


class Stats:
    """Per-shard counters, mergeable."""

    def __init__(self):
        self.cases = 0
        self.evals = 0
        self.excluded = collections.Counter()
        self.labels = collections.Counter()
        self.nontrivial_hashes = set()
        self.nontrivial_enum = 0  # distinct-by-construction (enumerated) non-trivial cases
        self.samples = []
        self.sample_parts = collections.Counter()
        self.violation = None  # (case, msg)
        self.parts = collections.Counter()  # cases per generator part
        self.exhaustive_parts = {}
        self.notes = []

    def record(self, case, v, part="random", enumerated=False, max_samples=3):
        self.cases += 1
        self.parts[part] += 1
        if v.excluded:
            self.excluded[v.excluded] += 1
            return
        self.evals += max(1, v.evals)
        for lab in v.labels:
            self.labels[lab] += 1
        if v.nontrivial:
            if enumerated:
                self.nontrivial_enum += v.weight
            else:
                self.nontrivial_hashes.add(case_hash(v.key if v.key is not None else case))
            if self.sample_parts[part] < 2:
                self.sample_parts[part] += 1
                self.samples.append({"part": part, "case": case})
        if not v.ok and self.violation is None:
            self.violation = (case, v.msg, part)

    def to_wire(self):
        return {
            "cases": self.cases,
            "evals": self.evals,
            "excluded": dict(self.excluded),
            "labels": dict(self.labels),
            "hashes": self.nontrivial_hashes,
            "enum": self.nontrivial_enum,
            "samples": self.samples,
            "violation": self.violation,
            "parts": dict(self.parts),
            "exhaustive_parts": self.exhaustive_parts,
            "notes": self.notes,
        }


def merge_wires(wires):
    out = {
        "cases": 0,
        "evals": 0,
        "excluded": collections.Counter(),
        "labels": collections.Counter(),
        "hashes": set(),
        "enum": 0,
        "samples": [],
        "violations": [],
        "parts": collections.Counter(),
        "exhaustive_parts": {},
        "notes": [],
    }
    for w in wires:
        out["cases"] += w["cases"]
        out["evals"] += w["evals"]
        out["excluded"].update(w["excluded"])
        out["labels"].update(w["labels"])
        out["hashes"] |= w["hashes"]
        out["enum"] += w["enum"]
        out["samples"].extend(w["samples"])
        if w["violation"] is not None:
            out["violations"].append(w["violation"])
        out["parts"].update(w["parts"])
        for k, val in w["exhaustive_parts"].items():
            out["exhaustive_parts"][k] = out["exhaustive_parts"].get(k, True) and val
        out["notes"].extend(w["notes"])
    return out


# --------------------------------------------------------------------------------------
# Hypothesis driver


def hypothesis_run(mod, strategy, n_examples, seed_value, stats, part, shrink):
    """Run `check` over `n_examples` draws of `strategy`; stop at the first violation and shrink it."""
    import hypothesis
    from hypothesis import HealthCheck, Phase, given, settings

    holder = {}

    phases = [Phase.generate]
    if shrink:
        phases.append(Phase.shrink)

    @hypothesis.seed(seed_value)
    @settings(
        max_examples=n_examples,
        database=None,
        deadline=None,
        derandomize=False,
        report_multiple_bugs=False,
        phases=phases,
        suppress_health_check=[HealthCheck.too_slow, HealthCheck.data_too_large, HealthCheck.large_base_example],
        print_blob=False,
        verbosity=hypothesis.Verbosity.quiet,
    )
    @given(strategy)
    def run(case):
        v = run_check(mod, case)
        if v.ok:
            if "failing" not in holder:
                stats.record(case, v, part=part)
        else:
            holder["failing"] = (case, v.msg)
            raise Violation(v.msg)

    try:
        run()
    except Violation:
        case, msg = holder["failing"]
        stats.cases += 1
        stats.parts[part] += 1
        if stats.violation is None:
            stats.violation = (case, msg, part)
    except hypothesis.errors.Unsatisfiable as e:
        raise HarnessError(f"generator unsatisfiable / filters too much: {e}")
    except hypothesis.errors.FailedHealthCheck as e:
        raise HarnessError(f"generator health check failed: {e}")


def ddmin_list(items, still_fails, budget_s=20.0):
    """Plain delta debugging on a list; used by the quick tier, where Phase.shrink is off."""
    t0 = time.time()
    n = 2
    items = list(items)
    while len(items) >= 2 and time.time() - t0 < budget_s:
        chunk = max(1, len(items) // n)
        reduced = False
        for i in range(0, len(items), chunk):
            cand = items[:i] + items[i + chunk:]
            if cand and still_fails(cand):
                items = cand
                n = max(n - 1, 2)
                reduced = True
                break
            if time.time() - t0 > budget_s:
                break
        if not reduced:
            if chunk == 1:
                break
            n = min(len(items), n * 2)
    return items


# --------------------------------------------------------------------------------------
# Evidence / replay


def write_replay(prop_id, case, msg):
    d = os.environ.get("VERIF_REPLAY_DIR") or os.path.join(VERIF_ROOT, "replays")
    os.makedirs(d, exist_ok=True)
    h = hashlib.blake2b(jdump(case).encode(), digest_size=6).hexdigest()
    path = os.path.join(d, f"{prop_id}-{h}.json")
    with open(path, "w") as f:
        json.dump({"property": prop_id, "message": msg, "case": json.loads(jdump(case))}, f, indent=1, sort_keys=True)
    return path


def write_evidence(prop_id, payload):
    d = os.environ.get("VERIF_EVIDENCE_DIR") or os.path.join(VERIF_ROOT, "evidence")
    os.makedirs(d, exist_ok=True)
    path = os.path.join(d, f"{prop_id}.json")
    tmp = path + ".tmp"
    with open(tmp, "w") as f:
        json.dump(json.loads(jdump(payload)), f, indent=1, sort_keys=True)
    os.replace(tmp, path)
    return path


def load_known_findings():
    path = os.path.join(VERIF_ROOT, "known_findings.json")
    with open(path) as f:
        return json.load(f)["findings"]


def trim(obj, limit=1500):
    s = jdump(obj)
    if len(s) <= limit:
        return obj
    return {"truncated_json": s[:limit] + "..."}
